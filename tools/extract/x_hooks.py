"""x_hooks / x_conv (hook part): the structure hooks registered on a converter returned by
get_converter() -> Lean `Gen.hooks`, `Gen.disamb` (module GenHooks).

* registered hooks: `converter._union_struct_registry` (unions) and the user-registered classes of
  the singledispatch registry; each live function's source (inspect.getsource) is parsed and
  abstractly interpreted into the `HExpr` language of Core/Cattrs.lean;
* default disambiguators: for every attrs-only union annotation of the package that has no
  registered hook, the closure of the function cattrs actually built is read.

A construct outside the supported subset prints `UNTRANSLATABLE: <hook>: <why>` and exits 3.

Usage: python x_hooks.py [--pkgdir DIR]
"""
import ast
import enum
import inspect
import os
import sys
import textwrap
import typing

sys.path.insert(0, os.path.dirname(os.path.abspath(__file__)))
import x_pkg  # noqa: E402  (parses --pkgdir itself; provides pyty)
from x_pkg import pyty, lean_name, lean_str, lean_list  # noqa: E402

import attrs  # noqa: E402
from lsprotocol import converters, types  # noqa: E402


class Untranslatable(Exception):
    pass


KINDS = {"bool": [".bool"], "int": [".int", ".bool"], "str": [".str"], "float": [".float"],
         "list": [".list"], "dict": [".dict"], "Mapping": [".dict"]}


import hooksym  # noqa: E402


def translate_hook(fn):
    """symbolic execution first (tools/extract/hooksym.py); the older shape-directed translator as a second opinion when the
    symbolic one declines"""
    import os

    def resolve(t):
        if isinstance(t, type) and attrs.has(t):
            attrs.resolve_types(t, types.ALL_TYPES_MAP, {})
    mode = os.environ.get("X_HOOKS_MODE", "sym-first")
    if mode == "old":
        return HookTr(fn).translate()
    try:
        return hooksym.HookSym(fn, pyty, lean_name, lean_str, resolve).translate()
    except hooksym.Untranslatable as e1:
        if mode == "sym":
            raise Untranslatable(str(e1))
        try:
            return HookTr(fn).translate()
        except Untranslatable as e2:
            raise Untranslatable(f"{e1} | shape-directed translator: {e2}")


class _Subst(ast.NodeTransformer):
    def __init__(self, mapping):
        self.mapping = mapping

    def visit_Name(self, node):
        if isinstance(node.ctx, ast.Load) and node.id in self.mapping:
            import copy
            return copy.deepcopy(self.mapping[node.id])
        return node


def _pure(e):
    """an expression without effects other than possibly raising: names, constants, attribute access, subscripts with constant
    index, comparisons, boolean operators, conditional expressions, isinstance / len calls"""
    if isinstance(e, (ast.Name, ast.Constant)):
        return True
    if isinstance(e, ast.Attribute):
        return _pure(e.value)
    if isinstance(e, ast.Subscript):
        return _pure(e.value) and isinstance(e.slice, ast.Constant)
    if isinstance(e, ast.UnaryOp) and isinstance(e.op, ast.Not):
        return _pure(e.operand)
    if isinstance(e, ast.BoolOp):
        return all(_pure(v) for v in e.values)
    if isinstance(e, ast.Compare):
        return _pure(e.left) and all(_pure(c) for c in e.comparators)
    if isinstance(e, ast.IfExp):
        return _pure(e.test) and _pure(e.body) and _pure(e.orelse)
    if isinstance(e, ast.Tuple):
        return all(_pure(x) for x in e.elts)
    if isinstance(e, ast.Call) and isinstance(e.func, ast.Name) and e.func.id in ("isinstance", "len") and not e.keywords:
        return all(_pure(a) for a in e.args)
    return False


def _mentions(node, name):
    return any(isinstance(n, ast.Name) and n.id == name for n in ast.walk(node))


class HookTr:
    def __init__(self, fn):
        self.fn = fn
        src = textwrap.dedent(inspect.getsource(fn))
        tree = ast.parse(src)
        node = tree.body[0]
        if isinstance(node, ast.FunctionDef):
            self.args = [a.arg for a in node.args.args]
            self.body = node.body
        else:
            # a lambda somewhere inside an expression statement / tuple
            lam = None
            for n in ast.walk(tree):
                if isinstance(n, ast.Lambda):
                    lam = n
                    break
            if lam is None:
                raise Untranslatable("cannot find the function node")
            self.args = [a.arg for a in lam.args.args]
            self.body = [ast.Return(lam.body)]
        if len(self.args) != 2:
            raise Untranslatable(f"hook takes {self.args}")
        self.obj = self.args[0]
        cv = inspect.getclosurevars(fn)
        self.env = dict(fn.__globals__)
        self.env.update(cv.nonlocals)
        self.body = [self.inline(st) for st in self.body]

    # -- calls to module-level helper predicates (single `return <expr>`) are expanded in place
    def inline(self, node, depth=0):
        tr = self

        class T(ast.NodeTransformer):
            def visit_Call(self, call):
                self.generic_visit(call)
                if isinstance(call.func, ast.Name) and call.func.id not in ("isinstance", "len", "str", "int"):
                    f = tr.env.get(call.func.id)
                    if inspect.isfunction(f) and f.__module__ == tr.fn.__module__ and not call.keywords:
                        if depth > 5:
                            raise Untranslatable("helper calls nested too deeply")
                        try:
                            ftree = ast.parse(textwrap.dedent(inspect.getsource(f))).body[0]
                        except (OSError, TypeError, SyntaxError) as ex:
                            raise Untranslatable(f"no source for helper {call.func.id}: {ex}")
                        body = ftree.body
                        if body and isinstance(body[0], ast.Expr) and isinstance(body[0].value, ast.Constant) and isinstance(body[0].value.value, str):
                            body = body[1:]
                        a = ftree.args
                        params = [x.arg for x in a.args]
                        if (len(body) != 1 or not isinstance(body[0], ast.Return) or body[0].value is None or a.vararg or a.kwarg or a.kwonlyargs
                                or a.defaults or len(params) != len(call.args) or not all(_pure(x) for x in call.args)):
                            raise Untranslatable(f"helper {call.func.id} is not a single-return function of plain arguments")
                        import copy
                        expr = _Subst(dict(zip(params, call.args))).visit(copy.deepcopy(body[0].value))
                        return tr.inline(expr, depth + 1)
                return call
        return T().visit(node)

    # -- paths
    def path(self, e, item=None):
        if isinstance(e, ast.Name):
            if e.id == self.obj and item is None:
                return ".self"
            if item is not None and e.id == item:
                return ".self"
            raise Untranslatable(f"name {e.id} used as a value")
        if isinstance(e, ast.Subscript):
            base = self.path(e.value, item)
            s = e.slice
            if isinstance(s, ast.Constant) and isinstance(s.value, int) and not isinstance(s.value, bool) and s.value >= 0:
                return f"(.idx {base} {s.value})"
            if isinstance(s, ast.Constant) and isinstance(s.value, str):
                return f"(.key {base} {lean_name(s.value)})"
        raise Untranslatable(f"path {ast.unparse(e)}")

    # -- conditions
    def cond(self, e, item=None):
        if isinstance(e, ast.Constant) and isinstance(e.value, bool):
            return ".tt" if e.value else ".ff"
        if isinstance(e, ast.UnaryOp) and isinstance(e.op, ast.Not):
            return f"(.not {self.cond(e.operand, item)})"
        if isinstance(e, ast.BoolOp):
            parts = [self.cond(v, item) for v in e.values]
            op = ".and" if isinstance(e.op, ast.And) else ".or"
            out = parts[-1]
            for p in reversed(parts[:-1]):
                out = f"({op} {p} {out})"
            return out
        if isinstance(e, ast.Compare) and len(e.ops) == 1:
            op, l, r = e.ops[0], e.left, e.comparators[0]
            if isinstance(op, (ast.Is, ast.IsNot)) and isinstance(r, ast.Constant) and r.value is None:
                c = f"(.isNone {self.path(l, item)})"
                return c if isinstance(op, ast.Is) else f"(.not {c})"
            if isinstance(op, (ast.In, ast.NotIn)) and isinstance(l, ast.Constant) and isinstance(l.value, str):
                c = f"(.hasKey {self.path(r, item)} {lean_name(l.value)})"
                return c if isinstance(op, ast.In) else f"(.not {c})"
            if isinstance(op, (ast.Eq, ast.NotEq)):
                # len(p) == n   |   p["k"] == "s"
                for a, b in ((l, r), (r, l)):
                    if isinstance(a, ast.Call) and isinstance(a.func, ast.Name) and a.func.id == "len" and isinstance(b, ast.Constant) and isinstance(b.value, int):
                        c = f"(.lenEq {self.path(a.args[0], item)} {b.value})"
                        return c if isinstance(op, ast.Eq) else f"(.not {c})"
                    if isinstance(a, ast.Subscript) and isinstance(a.slice, ast.Constant) and isinstance(a.slice.value, str) and isinstance(b, ast.Constant) and isinstance(b.value, str):
                        c = f"(.keyEq {self.path(a.value, item)} {lean_name(a.slice.value)} {lean_name(b.value)})"
                        return c if isinstance(op, ast.Eq) else f"(.not {c})"
        if isinstance(e, ast.Call) and isinstance(e.func, ast.Name) and e.func.id == "isinstance":
            p = self.path(e.args[0], item)
            cl = e.args[1]
            names = cl.elts if isinstance(cl, ast.Tuple) else [cl]
            ks = []
            expanded = []
            for n in names:
                nm = n.id if isinstance(n, ast.Name) else (n.attr if isinstance(n, ast.Attribute) else None)
                if nm not in KINDS and isinstance(n, ast.Name):
                    # a module-level constant holding a type or a tuple of types
                    v = self.env.get(n.id)
                    vs = list(v) if isinstance(v, tuple) else [v]
                    if vs and all(isinstance(t, type) and t.__module__ in ("builtins", "collections.abc", "typing") for t in vs):
                        expanded += [t.__name__ for t in vs]
                        continue
                expanded.append(nm)
            for nm in expanded:
                if nm not in KINDS:
                    raise Untranslatable(f"isinstance against {nm}")
                for k in KINDS[nm]:
                    if k not in ks:
                        ks.append(k)
            return f"(.isInst {p} [{', '.join(ks)}])"
        raise Untranslatable(f"condition {ast.unparse(e)}")

    # -- expressions returned
    def type_of(self, e):
        try:
            t = eval(compile(ast.Expression(e), "<hook>", "eval"), self.env)  # noqa: S307 - evaluating a type expression of the repo's own hook
        except Exception as ex:  # noqa: BLE001
            raise Untranslatable(f"cannot evaluate type {ast.unparse(e)}: {ex}")
        if attrs.has(t) if isinstance(t, type) else False:
            attrs.resolve_types(t, types.ALL_TYPES_MAP, {})
        return pyty(t)

    def is_structure_call(self, e):
        return (isinstance(e, ast.Call) and isinstance(e.func, ast.Attribute) and e.func.attr == "structure"
                and isinstance(e.func.value, ast.Name) and isinstance(self.env.get(e.func.value.id), object)
                and len(e.args) == 2 and not e.keywords)

    def ret(self, e, item=None):
        if isinstance(e, ast.Constant) and e.value is None:
            return ".retNone"
        if isinstance(e, ast.Name) and ((item is None and e.id == self.obj) or (item is not None and e.id == item)):
            return ".retSelf"
        if isinstance(e, ast.List) and not e.elts:
            return ".retEmptyList"
        if self.is_structure_call(e):
            tgt = e.args[0]
            if not (isinstance(tgt, ast.Name) and ((item is None and tgt.id == self.obj) or (item is not None and tgt.id == item))):
                raise Untranslatable(f"structure() of {ast.unparse(tgt)}")
            if isinstance(e.args[1], ast.IfExp):
                # the class is chosen by a conditional expression: the condition is evaluated before the call
                ie = e.args[1]
                mk = lambda t: ast.Call(func=e.func, args=[e.args[0], t], keywords=[])  # noqa: E731
                return f"(.ite {self.cond(ie.test, item)} {self.ret(mk(ie.body), item)} {self.ret(mk(ie.orelse), item)})"
            return f"(.structAs {self.type_of(e.args[1])})"
        if isinstance(e, ast.Call) and isinstance(e.func, ast.Name) and e.func.id == "str" and len(e.args) == 1:
            a = e.args[0]
            if isinstance(a, ast.Name) and ((item is None and a.id == self.obj) or (item is not None and a.id == item)):
                return ".strOf"
        if isinstance(e, ast.Tuple) and e.elts and item is None:
            ok = True
            for i, el in enumerate(e.elts):
                if not (isinstance(el, ast.Call) and isinstance(el.func, ast.Name) and el.func.id == "int" and len(el.args) == 1
                        and self.safe_path(el.args[0]) == f"(.idx .self {i})"):
                    ok = False
            if ok:
                return f"(.tupleInts {len(e.elts)})"
        if isinstance(e, ast.ListComp) and item is None and len(e.generators) == 1:
            g = e.generators[0]
            if (not g.ifs and isinstance(g.target, ast.Name) and isinstance(g.iter, ast.Name) and g.iter.id == self.obj):
                # an element class chosen once, before the loop, by a condition on the whole object (it does not mention the item):
                # [f(item, A if c else B) for item in o]  with c evaluated per item but constant  ==  (A-loop if c else B-loop) when o is non-empty;
                # only accepted through `hoisted` below, i.e. when the source computed the class in a local before the comprehension
                hc = getattr(self, "hoisted", None)
                if hc is not None and self.is_structure_call(e.elt) and isinstance(e.elt.args[1], ast.IfExp) and ast.dump(e.elt.args[1]) == ast.dump(hc) \
                        and not _mentions(hc, g.target.id):
                    ie = e.elt.args[1]
                    mk = lambda t: ast.ListComp(elt=ast.Call(func=e.elt.func, args=[e.elt.args[0], t], keywords=[]), generators=e.generators)  # noqa: E731
                    self.hoisted = None
                    return f"(.ite {self.cond(ie.test, None)} {self.ret(mk(ie.body), None)} {self.ret(mk(ie.orelse), None)})"
                return f"(.mapEach {self.ret(e.elt, item=g.target.id)})"
        if isinstance(e, ast.IfExp):
            return f"(.ite {self.cond(e.test, item)} {self.ret(e.body, item)} {self.ret(e.orelse, item)})"
        raise Untranslatable(f"returned expression {ast.unparse(e)}")

    def safe_path(self, e):
        try:
            return self.path(e)
        except Untranslatable:
            return None

    def block(self, stmts):
        if not stmts:
            return ".retNone"  # falls off the end
        s, rest = stmts[0], stmts[1:]
        if isinstance(s, ast.Expr) and isinstance(s.value, ast.Constant):
            return self.block(rest)
        if isinstance(s, ast.AnnAssign) and isinstance(s.target, ast.Name) and s.value is not None:
            s = ast.Assign(targets=[s.target], value=s.value)
        if isinstance(s, ast.If) and len(s.body) == 1 and len(s.orelse) == 1:
            # if c: x = A  else: x = B     ==     x = A if c else B
            def single(st):
                if isinstance(st, ast.AnnAssign) and isinstance(st.target, ast.Name) and st.value is not None:
                    return st.target.id, st.value
                if isinstance(st, ast.Assign) and len(st.targets) == 1 and isinstance(st.targets[0], ast.Name):
                    return st.targets[0].id, st.value
                return None
            a, b = single(s.body[0]), single(s.orelse[0])
            if a and b and a[0] == b[0] and _pure(a[1]) and _pure(b[1]) and _pure(s.test):
                s = ast.Assign(targets=[ast.Name(id=a[0], ctx=ast.Store())], value=ast.IfExp(test=s.test, body=a[1], orelse=b[1]))
        if (isinstance(s, ast.Assign) and len(s.targets) == 1 and isinstance(s.targets[0], ast.Name) and _pure(s.value) and rest
                and s.targets[0].id not in (self.obj, self.args[1])):
            # a local bound once to an effect-free expression and consumed by the very next statement: its uses are replaced by the
            # expression (evaluation moves from the assignment to the first use in the next statement; the correspondence stream is
            # what checks that this never turns a raising hook into a returning one)
            x = s.targets[0].id
            later_store = any(isinstance(n, ast.Name) and n.id == x and isinstance(n.ctx, ast.Store) for st in rest for n in ast.walk(st))
            if not later_store and _mentions(rest[0], x):
                import copy
                if isinstance(s.value, ast.IfExp):
                    self.hoisted = s.value
                new_rest = [_Subst({x: s.value}).visit(copy.deepcopy(st)) for st in rest]
                return self.block(new_rest)
            raise Untranslatable(f"local {x} is re-assigned or not used by the next statement")
        if isinstance(s, ast.Return):
            return self.ret(s.value if s.value is not None else ast.Constant(None))
        if isinstance(s, ast.Raise):
            return f"(.raise {lean_str(ast.unparse(s)[:60])})"
        if isinstance(s, ast.Assert):
            return f"(.ite {self.cond(s.test)} {self.block(rest)} (.raise \"AssertionError\"))"
        if isinstance(s, ast.If):
            c = self.cond(s.test)
            a = self.block(s.body + ([] if self.terminates(s.body) else rest))
            b = self.block(s.orelse + rest) if (s.orelse or rest) else ".retNone"
            if s.orelse and not self.terminates(s.orelse):
                b = self.block(s.orelse + rest)
            return f"(.ite {c} {a} {b})"
        raise Untranslatable(f"statement {type(s).__name__}: {ast.unparse(s)[:60]}")

    def terminates(self, stmts):
        if not stmts:
            return False
        last = stmts[-1]
        if isinstance(last, (ast.Return, ast.Raise)):
            return True
        if isinstance(last, ast.If):
            return bool(last.orelse) and self.terminates(last.body) and self.terminates(last.orelse)
        return False

    def translate(self):
        return self.block(self.body)


def collect_unions(conv):
    """Every union annotation reachable from the package's classes / aliases / catalogue."""
    seen = {}

    def walk(t):
        o = typing.get_origin(t)
        if o is typing.Union:
            seen.setdefault(t, None)
        for a in typing.get_args(t) if o is not None and o is not typing.Literal else ():
            walk(a)

    for v in list(types.ALL_TYPES_MAP.values()):
        if isinstance(v, type) and attrs.has(v):
            attrs.resolve_types(v, types.ALL_TYPES_MAP, {})
            for f in attrs.fields(v):
                walk(f.type)
        elif not isinstance(v, type):
            walk(x_pkg.resolve_alias(v))
    return list(seen)


def disamb_program(conv, u):
    try:
        fn = conv._structure_func.dispatch(u)
    except Exception as e:  # noqa: BLE001  cattrs cannot build a handler: structuring this union raises
        return f"(.raise {lean_str(('cattrs: ' + type(e).__name__ + ': ' + str(e))[:100])})"
    cv = inspect.getclosurevars(fn)
    dis = cv.nonlocals.get("dis_fn")
    if dis is None:
        raise Untranslatable(f"default union handler of {u} has no dis_fn in its closure")
    has_none = type(None) in typing.get_args(u)
    dv = inspect.getclosurevars(dis).nonlocals
    if "final_mapping" in dv:
        disc = dv["best_discriminator"]
        ov = {}
        body = '(.raise "KeyError (unknown discriminator value)")'
        for k, cl in reversed(list(dv["final_mapping"].items())):
            if not isinstance(k, str):
                raise Untranslatable("non-str literal discriminator")
            body = f"(.ite (.keyEq .self {lean_name(disc)} {lean_name(k)}) (.structAs {pyty(cl)}) {body})"
        # data[disc] raises KeyError when absent: keyEq's path evaluation raises too
        prog = f"(.ite (.hasKey .self {lean_name(disc)}) {body} (.raise \"KeyError\"))"
    elif "uniq_attrs_dict" in dv:
        fb = dv.get("fallback")
        body = f"(.structAs {pyty(fb)})" if fb is not None else "(.raise \"Couldn't disambiguate\")"
        for k, cl in reversed(list(dv["uniq_attrs_dict"].items())):
            body = f"(.ite (.hasKey .self {lean_name(k)}) (.structAs {pyty(cl)}) {body})"
        prog = body
    else:
        raise Untranslatable(f"unknown disambiguator closure {list(dv)}")
    prog = f"(.ite (.isInst .self [.dict]) {prog} (.raise \"Only input mappings are supported\"))"
    if has_none:
        prog = f"(.ite (.isNone .self) .retNone {prog})"
    return prog


def main():
    conv = converters.get_converter()
    out = ["-- generated by tools/extract/x_hooks.py", "import LspVerif.Core.Cattrs", "open LspVerif",
           "set_option maxRecDepth 1000000", "namespace Gen", ""]
    hooks = []
    info = []
    i = 0
    for ty, fn in conv._union_struct_registry.items():
        try:
            prog = translate_hook(fn)
        except Untranslatable as e:
            raise Untranslatable(f"{getattr(fn, '__name__', fn)}: {e}")
        out.append(f"def hook{i} : PyTy × HExpr := ({pyty(ty)}, {prog})")
        hooks.append(f"hook{i}")
        info.append((str(ty), getattr(fn, "__name__", "<lambda>")))
        i += 1
    base = cattrs_base_registry()
    for cl, fn in conv._structure_func._single_dispatch.registry.items():
        if cl in base:
            continue
        try:
            prog = translate_hook(fn)
        except Untranslatable as e:
            raise Untranslatable(f"{getattr(fn, '__name__', fn)} for {cl}: {e}")
        out.append(f"def hook{i} : PyTy × HExpr := ({pyty(cl)}, {prog})")
        hooks.append(f"hook{i}")
        i += 1
    out.append(f"def hooks : List (PyTy × HExpr) := {lean_list(hooks)}")
    dis = []
    j = 0
    for u in collect_unions(conv):
        if u in conv._union_struct_registry:
            continue
        a = typing.get_args(u)
        if len(a) == 2 and type(None) in a:
            continue
        if not all(x is type(None) or (isinstance(x, type) and attrs.has(x)) for x in a):
            continue
        out.append(f"def dis{j} : PyTy × HExpr := ({pyty(u)}, {disamb_program(conv, u)})")
        dis.append(f"dis{j}")
        j += 1
    out.append(f"def disamb : List (PyTy × HExpr) := {lean_list(dis)}")
    out.append(f"def progTys : List PyTy := {lean_list(prog_types(conv))}")
    out.append("end Gen")
    sys.stdout.write("\n".join(out) + "\n")


def prog_types(conv):
    """Every union annotation, in each spelling it occurs in (attribute annotations, aliases, hook
    registrations and their subterms), that structuring dispatches through a program: a registered
    hook or a disambiguator cattrs built.  A hint for the Lean side: the kernel checks each entry's
    program (`progOK`) and that every annotation structuring can reach is either structural or
    listed here (`lightOK`)."""
    acc = {}
    seen = []

    def walk(t):
        o = typing.get_origin(t)
        if o is typing.Union and t not in seen:
            seen.append(t)
        if o is not None and o is not typing.Literal:
            for a in typing.get_args(t):
                if a is not Ellipsis:
                    walk(a)

    for u in collect_unions(conv):
        walk(u)
    for ty in conv._union_struct_registry:
        walk(ty)
    for u in seen:
        a = typing.get_args(u)
        if u in conv._union_struct_registry:
            acc.setdefault(pyty(u), None)
        elif len(a) == 2 and type(None) in a:
            continue
        elif all(x is type(None) or (isinstance(x, type) and attrs.has(x)) for x in a):
            acc.setdefault(pyty(u), None)
    return list(acc)


def cattrs_base_registry():
    import cattrs
    c = cattrs.Converter()
    return set(c._structure_func._single_dispatch.registry.keys())


if __name__ == "__main__":
    try:
        main()
    except Untranslatable as e:
        print(f"UNTRANSLATABLE: {e}", file=sys.stderr)
        sys.exit(3)
