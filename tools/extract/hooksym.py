"""Symbolic execution of a hand-written structure hook of lsprotocol/_hooks.py into the hook-program language of
LspVerif.Core.Cattrs (HExpr / Cond / Path).

The hooks are small decision procedures over the shape of one JSON value.  Instead of matching the source against a fixed
shape, this module *executes* the function body on a symbolic argument: locals are bound to symbolic values (constants, JSON
paths, conditions, values that depend on a condition), `if` / `match` fork the execution, loops over constant tuples are
unrolled, calls of helper functions defined in the same module (or nested in the registering function) are executed
symbolically too, the walrus operator binds a local.  The result is one HExpr decision tree.

What is NOT modelled (-> Untranslatable, never a guess): loops over anything but a constant tuple, try/except, recursion,
mutation, attribute access on JSON values, arithmetic, string methods, comprehensions other than `[f(item) for item in object_]`.

Evaluation order: a local bound to an expression that can raise (a subscript such as `object_[0]`) is evaluated where it is
used; this is accepted only when the statement right after the binding uses the local (see DESIGN.md 8b).
"""
import ast
import inspect
import textwrap

KINDS = {"bool": [".bool"], "int": [".int", ".bool"], "str": [".str"], "float": [".float"],
         "list": [".list"], "dict": [".dict"], "Mapping": [".dict"]}


class Untranslatable(Exception):
    pass


# ---- symbolic values ---------------------------------------------------------------------------------------------------
class Const:
    def __init__(self, v):
        self.v = v


class PathV:
    """a sub-value of the hook argument (`root` = 'obj') or of the current comprehension item (`root` = 'item')"""
    def __init__(self, root, steps=()):
        self.root, self.steps = root, tuple(steps)


class CondV:
    """a boolean: tree ('tt',) ('ff',) ('not', c) ('and', a, b) ('or', a, b) ('atom', root, lean_text_with_{P}) """
    def __init__(self, t):
        self.t = t


class IteV:
    def __init__(self, c, a, b):
        self.c, self.a, self.b = c, a, b      # c : cond tree


class ResultV:
    """a finished result: ('leaf', hexpr_text) | ('ite', cond, r1, r2) | ('map', r)"""
    def __init__(self, t):
        self.t = t


class NoneFall:
    """falling off the end of a function: returns None"""


TT, FF = ("tt",), ("ff",)


def c_not(c):
    if c == TT:
        return FF
    if c == FF:
        return TT
    return ("not", c)


def c_and(a, b):
    if a == FF:
        return FF
    if a == TT:
        return b
    if b == TT:
        return a
    return ("and", a, b)


def c_or(a, b):
    if a == TT:
        return TT
    if a == FF:
        return b
    if b == FF:
        return a
    return ("or", a, b)


def roots(c):
    if c[0] == "atom":
        return {c[1]}
    out = set()
    for x in c[1:]:
        if isinstance(x, tuple):
            out |= roots(x)
    return out


def render_path(p: PathV, lean_name):
    s = ".self"
    for st in p.steps:
        if isinstance(st, int):
            s = f"(.idx {s} {st})"
        else:
            s = f"(.key {s} {lean_name(st)})"
    return s


def render_cond(c):
    k = c[0]
    if k == "tt":
        return ".tt"
    if k == "ff":
        return ".ff"
    if k == "not":
        return f"(.not {render_cond(c[1])})"
    if k in ("and", "or"):
        return f"(.{k} {render_cond(c[1])} {render_cond(c[2])})"
    if k == "atom":
        return c[2]
    raise Untranslatable(f"condition node {k}")


class HookSym:
    def __init__(self, fn, pyty, lean_name, lean_str, resolve_attrs):
        self.fn, self.pyty, self.lean_name, self.lean_str, self.resolve_attrs = fn, pyty, lean_name, lean_str, resolve_attrs
        self.depth = 0

    # ---- entry
    def translate(self):
        node, glob = self.func_node(self.fn)
        if isinstance(node, ast.Lambda):
            args = [a.arg for a in node.args.args]
            body = [ast.Return(node.body)]
        else:
            args = [a.arg for a in node.args.args]
            body = node.body
        if len(args) != 2:
            raise Untranslatable(f"hook takes {args}")
        env = {"__globals__": glob, args[0]: PathV("obj"), args[1]: Const(None)}
        r = self.run(body, env, lambda e: ("leaf", ".retNone"), "obj")
        return self.render_result(r)

    def func_node(self, fn):
        src = textwrap.dedent(inspect.getsource(fn))
        tree = ast.parse(src)
        node = tree.body[0]
        if not isinstance(node, ast.FunctionDef):
            lam = next((n for n in ast.walk(tree) if isinstance(n, ast.Lambda)), None)
            if lam is None:
                raise Untranslatable("cannot find the function node")
            node = lam
        glob = dict(fn.__globals__)
        try:
            glob.update(inspect.getclosurevars(fn).nonlocals)
        except Exception:  # noqa: BLE001
            pass
        return node, glob

    # ---- statements: returns a result tree
    def run(self, stmts, env, k, ctx):
        """result tree of executing `stmts` in `env`; `k(env)` is what happens after falling off the end"""
        if not stmts:
            return k(env)
        s, rest = stmts[0], stmts[1:]
        nxt = lambda e: self.run(rest, e, k, ctx)  # noqa: E731
        if isinstance(s, ast.Expr):
            if isinstance(s.value, ast.Constant):
                return nxt(env)
            raise Untranslatable(f"expression statement {ast.unparse(s)[:60]}")
        if isinstance(s, ast.Pass):
            return nxt(env)
        if isinstance(s, ast.AnnAssign) and isinstance(s.target, ast.Name) and s.value is not None:
            s = ast.Assign(targets=[s.target], value=s.value)
        if isinstance(s, ast.Assign) and len(s.targets) == 1 and isinstance(s.targets[0], ast.Name):
            x = s.targets[0].id
            if any(isinstance(n, ast.Subscript) for n in ast.walk(s.value)) and not (rest and any(isinstance(n, ast.Name) and n.id == x for n in ast.walk(rest[0]))):
                raise Untranslatable(f"local {x} is bound to an expression that can raise and is not used by the next statement")
            env = dict(env)
            env[x] = self.eval(s.value, env, ctx)
            return nxt(env)
        if isinstance(s, ast.Return):
            return self.ret(self.eval(s.value, env, ctx) if s.value is not None else Const(None), ctx)
        if isinstance(s, ast.Raise):
            return ("leaf", f"(.raise {self.lean_str(ast.unparse(s)[:60])})")
        if isinstance(s, ast.Assert):
            c = self.cond(self.eval(s.test, env, ctx))
            return self.ite(c, nxt(env), ("leaf", '(.raise "AssertionError")'))
        if isinstance(s, ast.If):
            env = dict(env)
            c = self.cond(self.eval(s.test, env, ctx))
            return self.ite(c, self.run(s.body, dict(env), nxt, ctx), self.run(s.orelse, dict(env), nxt, ctx))
        if isinstance(s, ast.For):
            elems = self.const_elems(self.eval(s.iter, env, ctx))
            if s.orelse:
                raise Untranslatable("for ... else")

            def loop(i, e):
                if i == len(elems):
                    return nxt(e)
                e2 = dict(e)
                self.bind(s.target, elems[i], e2)
                return self.run(s.body, e2, lambda e3: loop(i + 1, e3), ctx)
            return loop(0, env)
        if isinstance(s, ast.Match):
            subj = self.eval(s.subject, env, ctx)
            if not (isinstance(subj, PathV)):
                raise Untranslatable("match on something other than the JSON value")

            def cases(i, e):
                if i == len(s.cases):
                    return nxt(e)
                cs = s.cases[i]
                c = self.pattern(cs.pattern, subj)
                if cs.guard is not None:
                    c = c_and(c, self.cond(self.eval(cs.guard, e, ctx)))
                return self.ite(c, self.run(cs.body, dict(e), nxt, ctx), cases(i + 1, e))
            return cases(0, env)
        raise Untranslatable(f"statement {type(s).__name__}: {ast.unparse(s)[:60]}")

    def ite(self, c, a, b):
        if c == TT:
            return a
        if c == FF:
            return b
        return ("ite", c, a, b)

    def bind(self, target, value, env):
        if isinstance(target, ast.Name):
            env[target.id] = value
        elif isinstance(target, ast.Tuple):
            vs = self.const_elems(value)
            if len(vs) != len(target.elts):
                raise Untranslatable("tuple unpacking of a different length")
            for t, v in zip(target.elts, vs):
                self.bind(t, v, env)
        else:
            raise Untranslatable("loop target")

    def const_elems(self, v):
        if isinstance(v, Const) and isinstance(v.v, (tuple, list)):
            return [Const(x) for x in v.v]
        raise Untranslatable("iteration over something other than a constant tuple")

    def pattern(self, p, subj):
        if isinstance(p, ast.MatchSingleton) and p.value is None:
            return self.atom(subj, "(.isNone {P})")
        if isinstance(p, ast.MatchValue) and isinstance(p.value, ast.Constant) and p.value.value is None:
            return self.atom(subj, "(.isNone {P})")
        if isinstance(p, ast.MatchClass) and not p.patterns and not p.kwd_patterns and isinstance(p.cls, ast.Name):
            return self.isinst(subj, [p.cls.id])
        if isinstance(p, ast.MatchOr):
            c = FF
            for q in p.patterns:
                c = c_or(c, self.pattern(q, subj))
            return c
        if isinstance(p, ast.MatchAs) and p.pattern is None:
            if p.name is not None:
                raise Untranslatable("capture pattern")
            return TT
        raise Untranslatable(f"match pattern {ast.unparse(p)[:40]}")

    # ---- expressions
    def atom(self, p: PathV, text):
        return ("atom", p.root, text.replace("{P}", render_path(p, self.lean_name)))

    def isinst(self, p, names):
        ks = []
        for nm in names:
            if nm not in KINDS:
                raise Untranslatable(f"isinstance against {nm}")
            for k in KINDS[nm]:
                if k not in ks:
                    ks.append(k)
        return self.atom(p, "(.isInst {P} [" + ", ".join(ks) + "])")

    def eval(self, e, env, ctx):
        if isinstance(e, ast.Constant):
            return Const(e.value)
        if isinstance(e, ast.Name):
            if e.id in env:
                return env[e.id]
            g = env["__globals__"]
            if e.id in g:
                return Const(g[e.id])
            import builtins
            if hasattr(builtins, e.id):
                return Const(getattr(builtins, e.id))
            raise Untranslatable(f"name {e.id}")
        if isinstance(e, ast.NamedExpr) and isinstance(e.target, ast.Name):
            v = self.eval(e.value, env, ctx)
            env[e.target.id] = v
            return v
        if isinstance(e, ast.Attribute):
            b = self.eval(e.value, env, ctx)
            if isinstance(b, Const) and (inspect.ismodule(b.v) or isinstance(b.v, type)):
                try:
                    return Const(getattr(b.v, e.attr))
                except AttributeError:
                    raise Untranslatable(f"attribute {ast.unparse(e)}")
            raise Untranslatable(f"attribute access {ast.unparse(e)[:40]}")
        if isinstance(e, ast.Tuple) or isinstance(e, ast.List):
            vs = [self.eval(x, env, ctx) for x in e.elts]
            if isinstance(e, ast.List) and not vs:
                return ResultV(("leaf", ".retEmptyList"))
            if all(isinstance(v, Const) for v in vs):
                return Const(tuple(v.v for v in vs))
            # (int(o[0]), int(o[1]), ...)
            if isinstance(e, ast.Tuple) and all(isinstance(v, ResultV) and v.t[0] == "intof" for v in vs) and [v.t[1] for v in vs] == list(range(len(vs))):
                return ResultV(("leaf", f"(.tupleInts {len(vs)})"))
            raise Untranslatable(f"tuple {ast.unparse(e)[:50]}")
        if isinstance(e, ast.Subscript):
            b = self.eval(e.value, env, ctx)
            s = e.slice
            if isinstance(b, PathV) and isinstance(s, ast.Constant) and ((isinstance(s.value, int) and not isinstance(s.value, bool) and s.value >= 0) or isinstance(s.value, str)):
                return PathV(b.root, b.steps + (s.value,))
            if isinstance(b, Const) and isinstance(b.v, (tuple, list)) and isinstance(s, ast.Constant) and isinstance(s.value, int):
                return Const(b.v[s.value])
            raise Untranslatable(f"subscript {ast.unparse(e)[:50]}")
        if isinstance(e, ast.UnaryOp) and isinstance(e.op, ast.Not):
            return CondV(c_not(self.cond(self.eval(e.operand, env, ctx))))
        if isinstance(e, ast.BoolOp):
            cs = [self.cond(self.eval(v, env, ctx)) for v in e.values]
            out = cs[-1]
            for c in reversed(cs[:-1]):
                out = c_and(c, out) if isinstance(e.op, ast.And) else c_or(c, out)
            return CondV(out)
        if isinstance(e, ast.IfExp):
            c = self.cond(self.eval(e.test, env, ctx))
            a, b = self.eval(e.body, env, ctx), self.eval(e.orelse, env, ctx)
            if c == TT:
                return a
            if c == FF:
                return b
            return IteV(c, a, b)
        if isinstance(e, ast.Compare):
            out = TT
            left = e.left
            for op, right in zip(e.ops, e.comparators):
                out = c_and(out, self.compare(left, op, right, env, ctx))
                left = right
            return CondV(out)
        if isinstance(e, ast.Call):
            return self.call(e, env, ctx)
        if isinstance(e, ast.ListComp) and len(e.generators) == 1:
            g = e.generators[0]
            it = self.eval(g.iter, env, ctx)
            if not g.ifs and isinstance(g.target, ast.Name) and isinstance(it, PathV) and it.root == "obj" and not it.steps and ctx == "obj":
                env2 = dict(env)
                env2[g.target.id] = PathV("item")
                r = self.ret(self.eval(e.elt, env2, "item"), "item")
                return ResultV(self.hoist_map(r))
            raise Untranslatable(f"comprehension {ast.unparse(e)[:60]}")
        raise Untranslatable(f"expression {ast.unparse(e)[:60]}")

    def hoist_map(self, r):
        """[r(item) for item in object_]: conditions about the whole object are decided once, outside the loop"""
        if r[0] == "ite" and roots(r[1]) <= {"obj"}:
            return ("ite", r[1], self.hoist_map(r[2]), self.hoist_map(r[3]))
        if "obj" in self.all_roots(r):
            raise Untranslatable("a condition on the whole object below a condition on the item inside a comprehension")
        return ("map", r)

    def all_roots(self, r):
        if r[0] == "ite":
            return roots(r[1]) | self.all_roots(r[2]) | self.all_roots(r[3])
        if r[0] == "map":
            return self.all_roots(r[1])
        return set()

    def compare(self, l, op, r, env, ctx):
        lv, rv = self.eval(l, env, ctx), self.eval(r, env, ctx)
        neg = isinstance(op, (ast.IsNot, ast.NotIn, ast.NotEq))
        c = None
        if isinstance(op, (ast.Is, ast.IsNot)):
            if isinstance(rv, Const) and rv.v is None:
                c = self.is_none(lv)
            elif isinstance(lv, Const) and lv.v is None:
                c = self.is_none(rv)
        elif isinstance(op, (ast.In, ast.NotIn)):
            if isinstance(lv, Const) and isinstance(lv.v, str) and isinstance(rv, PathV):
                c = self.atom(rv, "(.hasKey {P} " + self.lean_name(lv.v) + ")")
        elif isinstance(op, (ast.Eq, ast.NotEq)):
            for a, b in ((lv, rv), (rv, lv)):
                if isinstance(a, ResultV) and a.t[0] == "lenof" and isinstance(b, Const) and isinstance(b.v, int) and not isinstance(b.v, bool):
                    c = self.atom(a.t[1], "(.lenEq {P} " + str(b.v) + ")")
                    break
                if isinstance(a, PathV) and a.steps and isinstance(a.steps[-1], str) and isinstance(b, Const) and isinstance(b.v, str):
                    parent = PathV(a.root, a.steps[:-1])
                    c = self.atom(parent, "(.keyEq {P} " + self.lean_name(a.steps[-1]) + " " + self.lean_name(b.v) + ")")
                    break
            if c is None and isinstance(lv, Const) and isinstance(rv, Const):
                c = TT if lv.v == rv.v else FF
        if c is None:
            raise Untranslatable(f"comparison {ast.unparse(l)[:30]} {type(op).__name__} {ast.unparse(r)[:30]}")
        return c_not(c) if neg else c

    def is_none(self, v):
        if isinstance(v, PathV):
            return self.atom(v, "(.isNone {P})")
        if isinstance(v, Const):
            return TT if v.v is None else FF
        if isinstance(v, IteV):
            return c_or(c_and(v.c, self.is_none(v.a)), c_and(c_not(v.c), self.is_none(v.b)))
        if isinstance(v, NoneFall):
            return TT
        raise Untranslatable("`is None` of a computed result")

    def cond(self, v):
        if isinstance(v, CondV):
            return v.t
        if isinstance(v, Const) and isinstance(v.v, bool):
            return TT if v.v else FF
        if isinstance(v, IteV):
            return c_or(c_and(v.c, self.cond(v.a)), c_and(c_not(v.c), self.cond(v.b)))
        raise Untranslatable("truth value of something that is not a comparison / isinstance / boolean")

    def call(self, e, env, ctx):
        f = e.func
        if isinstance(f, ast.Name) and f.id == "isinstance" and len(e.args) == 2 and not e.keywords:
            p = self.eval(e.args[0], env, ctx)
            t = self.eval(e.args[1], env, ctx)
            if not isinstance(p, PathV) or not isinstance(t, Const):
                raise Untranslatable(f"isinstance {ast.unparse(e)[:50]}")
            ts = list(t.v) if isinstance(t.v, tuple) else [t.v]
            if not all(isinstance(x, type) for x in ts):
                raise Untranslatable("isinstance against a non-type")
            return CondV(self.isinst(p, [x.__name__ for x in ts]))
        if isinstance(f, ast.Name) and f.id == "len" and len(e.args) == 1:
            p = self.eval(e.args[0], env, ctx)
            if isinstance(p, PathV):
                return ResultV(("lenof", p))
            raise Untranslatable("len of something other than the JSON value")
        if isinstance(f, ast.Name) and f.id == "int" and len(e.args) == 1:
            p = self.eval(e.args[0], env, ctx)
            if isinstance(p, PathV) and p.root == "obj" and len(p.steps) == 1 and isinstance(p.steps[0], int):
                return ResultV(("intof", p.steps[0]))
            raise Untranslatable("int() of something other than object_[i]")
        if isinstance(f, ast.Name) and f.id == "str" and len(e.args) == 1:
            p = self.eval(e.args[0], env, ctx)
            if isinstance(p, PathV) and not p.steps and p.root == ctx:
                return ResultV(("leaf", ".strOf"))
            raise Untranslatable("str() of something other than the value itself")
        if isinstance(f, ast.Name) and f.id in ("any", "all") and len(e.args) == 1 and isinstance(e.args[0], ast.GeneratorExp):
            g = e.args[0]
            if len(g.generators) != 1 or g.generators[0].ifs:
                raise Untranslatable("generator expression")
            elems = self.const_elems(self.eval(g.generators[0].iter, env, ctx))
            out = FF if f.id == "any" else TT
            cs = []
            for el in elems:
                e2 = dict(env)
                self.bind(g.generators[0].target, el, e2)
                cs.append(self.cond(self.eval(g.elt, e2, ctx)))
            for c in reversed(cs):
                out = c_or(c, out) if f.id == "any" else c_and(c, out)
            return CondV(out)
        # converter.structure(value, T)
        if isinstance(f, ast.Attribute) and f.attr == "structure" and len(e.args) == 2 and not e.keywords:
            tgt = self.eval(e.args[0], env, ctx)
            if not (isinstance(tgt, PathV) and not tgt.steps and tgt.root == ctx):
                raise Untranslatable(f"structure() of {ast.unparse(e.args[0])[:40]}")
            return self.struct_as(self.eval(e.args[1], env, ctx))
        # a helper function of the same module / nested in the registering function
        fv = self.eval(f, env, ctx) if isinstance(f, (ast.Name, ast.Attribute)) else None
        if isinstance(fv, Const) and inspect.isfunction(fv.v) and fv.v.__module__ == self.fn.__module__ and not e.keywords:
            if fv.v is self.fn or self.depth > 6:
                raise Untranslatable("recursive / deeply nested helper call")
            node, glob = self.func_node(fv.v)
            if isinstance(node, ast.Lambda):
                params, body = [a.arg for a in node.args.args], [ast.Return(node.body)]
            else:
                a = node.args
                if a.vararg or a.kwarg or a.kwonlyargs or a.defaults:
                    raise Untranslatable(f"helper {fv.v.__name__}: parameter list")
                params, body = [x.arg for x in a.args], node.body
            if len(params) != len(e.args):
                raise Untranslatable(f"helper {fv.v.__name__}: arity")
            env2 = {"__globals__": glob}
            for pn, av in zip(params, e.args):
                env2[pn] = self.eval(av, env, ctx)
            self.depth += 1
            try:
                return self.value_of(body, env2, lambda e3: NoneFall(), ctx)
            finally:
                self.depth -= 1
        raise Untranslatable(f"call {ast.unparse(e)[:60]}")

    def struct_as(self, t):
        if isinstance(t, Const):
            if isinstance(t.v, type) or t.v is None or hasattr(t.v, "__origin__") or hasattr(t.v, "__args__"):
                self.resolve_attrs(t.v)
                return ResultV(("leaf", f"(.structAs {self.pyty(t.v)})"))
            raise Untranslatable(f"structure() as {t.v!r}")
        if isinstance(t, IteV):
            return ResultV(("ite", t.c, self.struct_as(t.a).t, self.struct_as(t.b).t))
        raise Untranslatable("structure() as a computed type")

    # ---- a helper's body as a value
    def value_of(self, stmts, env, k, ctx):
        if not stmts:
            return k(env)
        s, rest = stmts[0], stmts[1:]
        nxt = lambda e: self.value_of(rest, e, k, ctx)  # noqa: E731
        if isinstance(s, ast.Expr) and isinstance(s.value, ast.Constant):
            return nxt(env)
        if isinstance(s, ast.AnnAssign) and isinstance(s.target, ast.Name) and s.value is not None:
            s = ast.Assign(targets=[s.target], value=s.value)
        if isinstance(s, ast.Assign) and len(s.targets) == 1 and isinstance(s.targets[0], ast.Name):
            env = dict(env)
            env[s.targets[0].id] = self.eval(s.value, env, ctx)
            return nxt(env)
        if isinstance(s, ast.Return):
            return self.eval(s.value, env, ctx) if s.value is not None else Const(None)
        if isinstance(s, ast.If):
            env = dict(env)
            c = self.cond(self.eval(s.test, env, ctx))
            a = self.value_of(s.body, dict(env), nxt, ctx)
            b = self.value_of(s.orelse, dict(env), nxt, ctx)
            if c == TT:
                return a
            if c == FF:
                return b
            if all(isinstance(x, (CondV,)) or (isinstance(x, Const) and isinstance(x.v, bool)) for x in (a, b)):
                return CondV(c_or(c_and(c, self.cond(a)), c_and(c_not(c), self.cond(b))))
            return IteV(c, a, b)
        if isinstance(s, ast.For) and not s.orelse:
            elems = self.const_elems(self.eval(s.iter, env, ctx))

            def loop(i, e):
                if i == len(elems):
                    return nxt(e)
                e2 = dict(e)
                self.bind(s.target, elems[i], e2)
                return self.value_of(s.body, e2, lambda e3: loop(i + 1, e3), ctx)
            return loop(0, env)
        raise Untranslatable(f"statement in a helper: {type(s).__name__}: {ast.unparse(s)[:50]}")

    # ---- results
    def ret(self, v, ctx):
        if isinstance(v, ResultV):
            if v.t[0] in ("lenof", "intof"):
                raise Untranslatable("returns len()/int()")
            return v.t
        if isinstance(v, (NoneFall,)) or (isinstance(v, Const) and v.v is None):
            return ("leaf", ".retNone")
        if isinstance(v, PathV) and not v.steps and v.root == ctx:
            return ("leaf", ".retSelf")
        if isinstance(v, IteV):
            return ("ite", v.c, self.ret(v.a, ctx), self.ret(v.b, ctx))
        raise Untranslatable("returned value")

    def render_result(self, r):
        if r[0] == "leaf":
            return r[1]
        if r[0] == "ite":
            return f"(.ite {render_cond(r[1])} {self.render_result(r[2])} {self.render_result(r[3])})"
        if r[0] == "map":
            return f"(.mapEach {self.render_result(r[1])})"
        raise Untranslatable(f"result node {r[0]}")
