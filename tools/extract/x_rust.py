"""x_rust: run the rust plugin of the current tree (or take --file), rustfmt it, parse the emitted
subset of Rust into tables -> Lean `Gen.rust : Rust.Pkg` (module GenRust).

Parser self-check: every `pub struct|enum|type` occurrence at column 0 must be accounted for by a
parsed item, every field / variant line inside an item must be consumed; otherwise UNPARSED (exit 3).
"""
import json
import os
import pathlib
import re
import shutil
import subprocess
import sys
import tempfile

sys.path.insert(0, os.path.dirname(os.path.dirname(os.path.abspath(__file__))))
sys.path.insert(0, os.path.dirname(os.path.abspath(__file__)))
from common import lean_name, lean_list, lean_bool, lean_int  # noqa: E402
from x_artifacts import rust_items, rustfmt  # noqa: E402

REPO = pathlib.Path(os.environ.get("VERIF_REPO", "/repo"))


class Unparsed(Exception):
    pass


# ---- types
def parse_type(s):
    s = s.strip()
    pos = 0

    def ty():
        nonlocal pos
        skip()
        if s[pos] == "(":
            pos += 1
            items = []
            while True:
                skip()
                if s[pos] == ")":
                    pos += 1
                    break
                items.append(ty())
                skip()
                if s[pos] == ",":
                    pos += 1
            return ("tup", items)
        m = re.match(r"[A-Za-z_][A-Za-z0-9_:]*", s[pos:])
        if not m:
            raise Unparsed(f"type {s!r} at {pos}")
        name = m.group(0)
        pos += len(name)
        skip()
        args = []
        if pos < len(s) and s[pos] == "<":
            pos += 1
            while True:
                skip()
                if s[pos] == ">":
                    pos += 1
                    break
                args.append(ty())
                skip()
                if s[pos] == ",":
                    pos += 1
        return ("n", name, args)

    def skip():
        nonlocal pos
        while pos < len(s) and s[pos] in " \n\t":
            pos += 1

    t = ty()
    skip()
    if pos != len(s):
        raise Unparsed(f"trailing text in type {s!r}")
    return t


def lean_ty(t):
    if t[0] == "tup":
        return f"(.tup {lean_list(lean_ty(x) for x in t[1])})"
    return f"(.n {lean_name(t[1])} {lean_list(lean_ty(x) for x in t[2])})"


# ---- items
def split_attrs(lines):
    """leading doc comments / attributes of a member; returns (attrs:list[str], rest_lines)"""
    attrs = []
    i = 0
    while i < len(lines):
        l = lines[i].strip()
        if l.startswith("///") or l.startswith("//") or not l:
            i += 1
            continue
        if l.startswith("#["):
            a = l
            while a.count("[") > a.count("]"):
                i += 1
                a += " " + lines[i].strip()
            attrs.append(a)
            i += 1
            continue
        break
    return attrs, lines[i:]


def attr_info(attrs):
    info = {"gated": False, "deprecated": False, "rename": None, "rename_all": None, "untagged": False, "skip_none": False, "deny_unknown": False}
    for a in attrs:
        if a.startswith("#[cfg("):
            if a.replace(" ", "") == '#[cfg(feature="proposed")]':
                info["gated"] = True
            else:
                raise Unparsed(f"cfg attribute {a}")
        elif a == "#[deprecated]":
            info["deprecated"] = True
        elif a.startswith("#[serde("):
            body = a[len("#[serde("):-2]
            for part in re.findall(r'(\w+)(?:\s*=\s*"((?:[^"\\]|\\.)*)")?', body):
                k, v = part
                if k == "rename":
                    info["rename"] = v
                elif k == "rename_all":
                    info["rename_all"] = v
                elif k == "untagged":
                    info["untagged"] = True
                elif k == "skip_serializing_if":
                    info["skip_none"] = True
                elif k == "deny_unknown_fields":
                    info["deny_unknown"] = True
                else:
                    raise Unparsed(f"serde attribute {k}")
        elif a.startswith("#[derive("):
            pass
        else:
            raise Unparsed(f"attribute {a}")
    return info


def members(body_lines):
    """split the lines between the braces of a struct / enum into member chunks (ending in ',')"""
    chunks, cur, depth = [], [], 0
    for l in body_lines:
        s = l.strip()
        if not s and not cur:
            continue
        cur.append(l)
        if s.startswith("//") or s.startswith("#["):
            continue
        code = re.sub(r'"(\\.|[^"\\])*"', '""', s)
        depth += code.count("<") + code.count("(") - code.count(">") - code.count(")") + code.count("=>") * 1
        if depth <= 0 and s.endswith(","):
            chunks.append(cur)
            cur, depth = [], 0
    if any(x.strip() and not x.strip().startswith(("//", "#[")) for x in cur):
        # last member without trailing comma
        chunks.append(cur)
    return chunks


def parse_item(text):
    lines = text.split("\n")
    attrs, rest = split_attrs(lines)
    if not rest:
        return None
    head = rest[0].strip()
    info = attr_info(attrs)
    m = re.match(r"(pub )?struct (\w+)(<[^>]*>)? \{$", head)
    if m:
        body = rest[1:]
        if body and body[-1].strip() == "}":
            body = body[:-1]
        fields = []
        for ch in members(body):
            fa, fr = split_attrs(ch)
            fi = attr_info(fa)
            decl = " ".join(x.strip() for x in fr)
            fm = re.match(r"pub (r#)?(\w+): (.*),?$", decl)
            if not fm:
                raise Unparsed(f"field in struct {m.group(2)}: {decl!r}")
            ty = fm.group(3).rstrip(",").strip()
            fields.append({"ident": fm.group(2), "rename": fi["rename"], "ty": parse_type(ty), "gated": fi["gated"], "skip_none": fi["skip_none"], "deprecated": fi["deprecated"]})
        return ("struct", {"name": m.group(2), "rename_all": info["rename_all"], "gated": info["gated"], "fields": fields, "deny_unknown": info["deny_unknown"]})
    if re.match(r"(pub )?struct (\w+) \{\}$", head):
        return ("struct", {"name": re.match(r"(pub )?struct (\w+) \{\}$", head).group(2), "rename_all": info["rename_all"], "gated": info["gated"], "fields": [], "deny_unknown": info["deny_unknown"]})
    if re.match(r"(pub )?struct (\w+);$", head):
        return ("struct", {"name": re.match(r"(pub )?struct (\w+);$", head).group(2), "rename_all": info["rename_all"], "gated": info["gated"], "fields": [], "deny_unknown": info["deny_unknown"]})
    m = re.match(r"(pub )?enum (\w+)(<[^>]*>)? \{$", head)
    if m:
        body = rest[1:]
        if body and body[-1].strip() == "}":
            body = body[:-1]
        variants = []
        for ch in members(body):
            va, vr = split_attrs(ch)
            vi = attr_info(va)
            decl = " ".join(x.strip() for x in vr).rstrip(",").strip()
            vm = re.match(r"(\w+)(?:\((.*)\))?(?:\s*=\s*(-?\d+))?$", decl)
            if not vm:
                raise Unparsed(f"variant in enum {m.group(2)}: {decl!r}")
            variants.append({"ident": vm.group(1), "rename": vi["rename"], "payload": parse_type(vm.group(2)) if vm.group(2) else None,
                             "disc": int(vm.group(3)) if vm.group(3) is not None else None, "gated": vi["gated"]})
        return ("enum", {"name": m.group(2), "untagged": info["untagged"], "gated": info["gated"], "variants": variants, "generic": bool(m.group(3))})
    m = re.match(r"(pub )?type (\w+) = (.*);$", " ".join(x.strip() for x in rest))
    if m:
        return ("alias", {"name": m.group(2), "ty": parse_type(m.group(3)), "gated": info["gated"]})
    m = re.match(r"impl Serialize for (\w+) \{$", head)
    if m:
        arms = re.findall(r"(\w+)::(\w+) => serializer\.serialize_i32\((-?\d+)\)", text)
        return ("ser", {"name": m.group(1), "arms": [(v, int(n)) for _, v, n in arms]})
    m = re.match(r"impl<'de> Deserialize<'de> for (\w+) \{$", head)
    if m:
        arms = re.findall(r"(-?\d+) => Ok\((\w+)::(\w+)\)", text)
        return ("de", {"name": m.group(1), "arms": [(int(n), v) for n, _, v in arms]})
    if head.startswith("use ") or head.startswith("//"):
        return ("use", {})
    raise Unparsed(f"item starting {head!r}")


def generate():
    d = pathlib.Path(tempfile.mkdtemp(prefix="lspverif-rust-"))
    try:
        args = [sys.executable, "-B", "-m", "generator", "--plugin", "rust", "--output-dir", str(d), "--test-dir", str(d / "_t")]
        if "--model" in sys.argv:
            args += ["--model", *sys.argv[sys.argv.index("--model") + 1:]]
        p = subprocess.run(args, cwd=str(REPO), capture_output=True, text=True)
        if p.returncode != 0:
            print("PLUGIN-FAILED: " + (p.stdout + p.stderr)[-1500:], file=sys.stderr)
            sys.exit(4)
        txt, err = rustfmt(d / "lsprotocol/src/lib.rs")
        if txt is None:
            print("RUSTFMT-FAILED: " + err, file=sys.stderr)
            sys.exit(4)
        return txt
    finally:
        shutil.rmtree(d, ignore_errors=True)


def main():
    if "--file" in sys.argv:
        txt = open(sys.argv[sys.argv.index("--file") + 1], encoding="utf-8").read()
    else:
        txt = generate()
    structs, enums, aliases, sers, des = [], [], [], {}, {}
    n_decl = len(re.findall(r"^(?:pub )?(?:struct|enum|type) \w+", txt, re.M))
    n_parsed = 0
    for it in rust_items(txt):
        r = parse_item(it)
        if r is None:
            continue
        k, v = r
        if k == "struct":
            structs.append(v); n_parsed += 1
        elif k == "enum":
            enums.append(v); n_parsed += 1
        elif k == "alias":
            aliases.append(v); n_parsed += 1
        elif k == "ser":
            sers[v["name"]] = v["arms"]
        elif k == "de":
            des[v["name"]] = v["arms"]
    if n_parsed != n_decl:
        raise Unparsed(f"{n_decl} struct/enum/type declarations in the text but {n_parsed} parsed")
    if "--json" in sys.argv:
        json.dump({"structs": structs, "enums": enums, "aliases": aliases, "ser": sers, "de": des}, sys.stdout)
        return
    out = ["-- generated by tools/extract/x_rust.py", "import LspVerif.Spec.Wire", "open LspVerif LspVerif.Wire", "set_option maxRecDepth 1000000", "namespace Gen", ""]

    def opt_name(x):
        return "none" if x is None else f"(some {lean_name(x)})"

    def serde_wire(s, f):
        if f["rename"] is not None:
            return f["rename"]
        if s["rename_all"] == "camelCase":
            out, cap = [], True
            for ch in f["ident"]:
                if ch == "_":
                    cap = True
                elif cap:
                    out.append(ch.upper() if "a" <= ch <= "z" else ch)
                    cap = False
                else:
                    out.append(ch)
            r = "".join(out)
            return (r[:1].lower() if "A" <= r[:1] <= "Z" else r[:1]) + r[1:]
        return f["ident"]

    sn = []
    for i, s in enumerate(structs):
        fs = [f"{{ ident := {lean_name(f['ident'])}, rename := {opt_name(f['rename'])}, ty := {lean_ty(f['ty'])}, gated := {lean_bool(f['gated'])}, skipNone := {lean_bool(f['skip_none'])}, wireHint := {lean_name(serde_wire(s, f))} }}" for f in s["fields"]]
        out.append(f"def rs{i} : RStruct := {{ name := {lean_name(s['name'])}, renameAll := {opt_name(s['rename_all'])}, gated := {lean_bool(s['gated'])}, fields := {lean_list(fs)} }}")
        sn.append(f"rs{i}")
    en = []
    for i, e in enumerate(enums):
        vs = []
        for v in e["variants"]:
            payload = "none" if v["payload"] is None else f"(some {lean_ty(v['payload'])})"
            disc = "none" if v["disc"] is None else f"(some {lean_int(v['disc'])})"
            vs.append(f"{{ ident := {lean_name(v['ident'])}, rename := {opt_name(v['rename'])}, disc := {disc}, payload := {payload}, gated := {lean_bool(v['gated'])} }}")
        ser = lean_list(f"({lean_name(a)}, {lean_int(b)})" for a, b in sers.get(e["name"], []))
        de = lean_list(f"({lean_int(a)}, {lean_name(b)})" for a, b in des.get(e["name"], []))
        out.append(f"def re{i} : REnum := {{ name := {lean_name(e['name'])}, untagged := {lean_bool(e['untagged'])}, gated := {lean_bool(e['gated'])}, variants := {lean_list(vs)}, serArms := {ser}, deArms := {de} }}")
        en.append(f"re{i}")
    al = [f"({lean_name(a['name'])}, {lean_ty(a['ty'])}, {lean_bool(a['gated'])})" for a in aliases]
    out.append(f"def rust : RPkg := {{ structs := {lean_list(sn)}, enums := {lean_list(en)}, aliases := {lean_list(al)} }}")
    out.append("end Gen")
    sys.stdout.write("\n".join(out) + "\n")


if __name__ == "__main__":
    try:
        main()
    except Unparsed as e:
        print(f"UNPARSED: {e}", file=sys.stderr)
        sys.exit(3)
