"""x_valid: lsprotocol/validators.py -> Lean definitions of the two range validators over
`LspVerif.PV` (module GenValid).  Constants are read from the imported module; the function
bodies are translated from their AST by partial evaluation per kind of `value`.

Usage: python x_valid.py [--pkgdir DIR]
"""
import ast
import inspect
import sys

args = sys.argv[1:]
if "--pkgdir" in args:
    sys.path.insert(0, args[args.index("--pkgdir") + 1])

from lsprotocol import validators  # noqa: E402


class Untranslatable(Exception):
    pass


KINDS = ["int", "bool", "float", "str", "none", "other"]
PAT = {"int": ".int i", "bool": ".bool b", "float": ".float _", "str": ".str _", "none": ".none", "other": ".other _"}
ISINST = {
    "int": {"int"}, "bool": {"int", "bool"}, "float": {"float"}, "str": {"str"}, "none": set(), "other": set(),
}


def lean_int(i):
    return f"({i} : Int)"


class Tr:
    def __init__(self, fn_args, kind, consts):
        self.inst, self.attr, self.value = fn_args
        self.kind = kind
        self.consts = consts
        self.locals = {}  # name -> ('attrname',) etc.
        self.subst = {}   # local bound once to an effect-free expression -> that expression

    # expressions: returns ('c', python_value) for static, ('int', lean) / ('bool', lean) for dynamic
    def expr(self, e):
        if isinstance(e, ast.Constant):
            return ("c", e.value)
        if isinstance(e, ast.Name) and e.id in self.subst:
            return self.expr(self.subst[e.id])
        if isinstance(e, ast.Name):
            if e.id == self.value:
                if self.kind == "int":
                    return ("int", "i")
                if self.kind == "bool":
                    return ("int", "(if b then 1 else 0)")
                raise Untranslatable(f"arithmetic/comparison use of a {self.kind} value (not guarded by isinstance)")
            if e.id in self.consts:
                return ("c", self.consts[e.id])
            if e.id in ("True", "False"):
                return ("c", e.id == "True")
            raise Untranslatable(f"name {e.id}")
        if isinstance(e, ast.UnaryOp) and isinstance(e.op, ast.Not):
            k, v = self.expr(e.operand)
            if k == "c":
                return ("c", not v)
            return ("bool", f"(!{self.as_bool(k, v)})")
        if isinstance(e, ast.UnaryOp) and isinstance(e.op, ast.USub):
            k, v = self.expr(e.operand)
            if k == "c":
                return ("c", -v)
            return ("int", f"(-{v})")
        if isinstance(e, ast.BinOp):
            l = self.expr(e.left)
            r = self.expr(e.right)
            if l[0] == "c" and r[0] == "c":
                return ("c", eval(compile(ast.Expression(ast.BinOp(ast.Constant(l[1]), e.op, ast.Constant(r[1]))), "<c>", "eval")))
            raise Untranslatable("arithmetic on the value")
        if isinstance(e, ast.BoolOp):
            is_or = isinstance(e.op, ast.Or)
            parts = []
            for v in e.values:
                k, x = self.expr_guarded(v)
                if k == "c":
                    if bool(x) == is_or:
                        # short-circuit: everything after is not evaluated
                        parts.append(("c", bool(x)))
                        break
                    continue  # neutral element
                parts.append((k, x))
            if not parts:
                return ("c", not is_or)
            if parts[-1][0] == "c":
                dyn = parts[:-1]
                if not dyn:
                    return ("c", parts[-1][1])
                # dyn1 or ... or True  == True only if reached; keep the dynamic prefix semantics
                joined = (" || " if is_or else " && ").join(self.as_bool(k, x) for k, x in dyn)
                tail = "true" if is_or else "false"
                return ("bool", f"({joined} {'||' if is_or else '&&'} {tail})")
            joined = (" || " if is_or else " && ").join(self.as_bool(k, x) for k, x in parts)
            return ("bool", f"({joined})")
        if isinstance(e, ast.Compare):
            parts = []
            left = e.left
            for op, right in zip(e.ops, e.comparators):
                parts.append(self.cmp(left, op, right))
                left = right
            if all(p[0] == "c" for p in parts):
                return ("c", all(p[1] for p in parts))
            dyn = [p for p in parts if p[0] != "c"]
            if any(p[0] == "c" and not p[1] for p in parts):
                return ("c", False)
            return ("bool", "(" + " && ".join(p[1] for p in dyn) + ")")
        if isinstance(e, ast.Call) and isinstance(e.func, ast.Name) and e.func.id == "isinstance":
            obj, cl = e.args
            if not (isinstance(obj, ast.Name) and obj.id == self.value):
                raise Untranslatable("isinstance of something other than value")
            names = [cl] if not isinstance(cl, ast.Tuple) else cl.elts
            return ("c", any(isinstance(n, ast.Name) and n.id in ISINST[self.kind] for n in names))
        raise Untranslatable(f"expression {ast.dump(e)[:100]}")

    def expr_guarded(self, e):
        return self.expr(e)

    def as_bool(self, k, v):
        if k == "bool":
            return v
        raise Untranslatable("int used as truth value")

    def cmp(self, l, op, r):
        a = self.expr(l)
        b = self.expr(r)
        sym = {"Eq": "=", "NotEq": "≠", "Gt": ">", "Lt": "<", "GtE": "≥", "LtE": "≤"}.get(type(op).__name__)
        if sym is None:
            raise Untranslatable(f"operator {type(op).__name__}")
        if a[0] == "c" and b[0] == "c":
            import operator
            f = {"=": operator.eq, "≠": operator.ne, ">": operator.gt, "<": operator.lt, "≥": operator.ge, "≤": operator.le}[sym]
            return ("c", f(a[1], b[1]))
        def tx(x):
            if x[0] == "c":
                if isinstance(x[1], bool) or not isinstance(x[1], int):
                    raise Untranslatable("comparison with a non-int constant")
                return lean_int(x[1])
            if x[0] == "int":
                return x[1]
            raise Untranslatable("comparison of a bool expression")
        return ("bool", f"decide ({tx(a)} {sym} {tx(b)})")

    def message(self, e):
        """f-string of the raise -> list of MsgPart."""
        parts = []
        if isinstance(e, ast.Constant) and isinstance(e.value, str):
            return [f'.lit "{esc(e.value)}"']
        if not isinstance(e, ast.JoinedStr):
            raise Untranslatable("error message is not an f-string")
        for v in e.values:
            if isinstance(v, ast.Constant):
                parts.append(f'.lit "{esc(str(v.value))}"')
            elif isinstance(v, ast.FormattedValue):
                x = v.value
                while isinstance(x, ast.Name) and x.id in self.subst:
                    x = self.subst[x.id]
                src = ast.unparse(x)
                if src == f"{self.inst}.__class__.__qualname__" or src == f"type({self.inst}).__qualname__" or src == f"{self.inst}.__class__.__name__" or src == f"type({self.inst}).__name__":
                    parts.append(".cls")
                elif isinstance(x, ast.Name) and self.locals.get(x.id) == "attrname":
                    parts.append(".attr")
                elif src == f"{self.attr}.name":
                    parts.append(".attr")
                elif isinstance(x, ast.Name) and x.id == self.value:
                    parts.append(".value")
                elif isinstance(x, ast.Name) and x.id in self.consts:
                    parts.append(f".const {lean_int(self.consts[x.id])}")
                else:
                    raise Untranslatable(f"message field {src}")
            else:
                raise Untranslatable("message part")
        return parts

    def block(self, stmts):
        if not stmts:
            return ".ok  /- falls off the end: returns None -/" if False else self.fall_off()
        s, rest = stmts[0], stmts[1:]
        if isinstance(s, ast.Expr) and isinstance(s.value, ast.Constant):
            return self.block(rest)
        if isinstance(s, ast.AnnAssign) and isinstance(s.target, ast.Name) and s.value is not None:
            s = ast.Assign(targets=[s.target], value=s.value)
        if isinstance(s, ast.If) and len(s.body) == 1 and len(s.orelse) == 1:
            # if c: x = A  else: x = B    ==    x = A if c else B
            def single(st):
                if isinstance(st, ast.Assign) and len(st.targets) == 1 and isinstance(st.targets[0], ast.Name):
                    return st.targets[0].id, st.value
                return None
            p1, p2 = single(s.body[0]), single(s.orelse[0])
            if p1 and p2 and p1[0] == p2[0]:
                s = ast.Assign(targets=[ast.Name(id=p1[0], ctx=ast.Store())], value=ast.IfExp(test=s.test, body=p1[1], orelse=p2[1]))
        if isinstance(s, ast.Assign) and len(s.targets) == 1 and isinstance(s.targets[0], ast.Name):
            src = ast.unparse(s.value)
            a = self.attr
            if src in (f"{a}.name if hasattr({a}, 'name') else str({a})", f"{a}.name"):
                self.locals[s.targets[0].id] = "attrname"
                return self.block(rest)
            x = s.targets[0].id
            if x in (self.inst, self.attr, self.value) or x in self.subst or any(isinstance(n, ast.Call) and not (isinstance(n.func, ast.Name) and n.func.id == "isinstance") for n in ast.walk(s.value)):
                raise Untranslatable(f"assignment {ast.unparse(s)}")
            # a local bound once to an effect-free expression (comparisons, isinstance, attribute reads): used through substitution
            self.subst[x] = s.value
            return self.block(rest)
        if isinstance(s, ast.Return):
            k, v = self.expr(s.value) if s.value is not None else ("c", None)
            if k == "c" and v is True:
                return ".ok"
            raise Untranslatable(f"validator returns {ast.unparse(s)}")
        if isinstance(s, ast.Raise):
            exc = s.exc
            if isinstance(exc, ast.Call) and isinstance(exc.func, ast.Name):
                if exc.func.id == "ValueError" and len(exc.args) == 1:
                    return f".valueError [{', '.join(self.message(exc.args[0]))}]"
                if exc.func.id == "TypeError":
                    return ".typeError"
            return ".otherError"
        if isinstance(s, ast.If):
            k, c = self.expr(s.test)
            if k == "c":
                chosen = s.body if c else s.orelse
                return self.block(chosen + ([] if self.terminates(chosen) else rest))
            a = self.block(s.body + ([] if self.terminates(s.body) else rest))
            b = self.block(s.orelse + rest)
            return f"(if {c} then {a} else {b})"
        raise Untranslatable(f"statement {type(s).__name__}")

    def fall_off(self):
        raise Untranslatable("validator falls off the end (returns None, not True)")

    def terminates(self, stmts):
        if not stmts:
            return False
        last = stmts[-1]
        if isinstance(last, (ast.Return, ast.Raise)):
            return True
        if isinstance(last, ast.If):
            return self.terminates(last.body) and self.terminates(last.orelse)
        return False


class _Subst(ast.NodeTransformer):
    def __init__(self, mapping):
        self.mapping = mapping

    def visit_Name(self, node):
        if isinstance(node.ctx, ast.Load) and node.id in self.mapping:
            import copy
            return copy.deepcopy(self.mapping[node.id])
        return node


def _simple_arg(a):
    return isinstance(a, (ast.Name, ast.Constant)) or (isinstance(a, ast.Attribute) and _simple_arg(a.value)) or \
        (isinstance(a, ast.UnaryOp) and isinstance(a.op, ast.USub) and _simple_arg(a.operand))


def _strip_doc(body):
    return body[1:] if body and isinstance(body[0], ast.Expr) and isinstance(body[0].value, ast.Constant) and isinstance(body[0].value.value, str) else body


def _helper_body(call, fns, depth):
    """statements of the module-level helper `call` invokes, with its parameters replaced by the (simple) argument expressions"""
    import copy
    if depth > 6:
        raise Untranslatable("helper calls nested too deeply")
    f = fns.get(call.func.id)
    if f is None:
        return None
    a = f.args
    if a.vararg or a.kwarg or a.kwonlyargs or a.posonlyargs:
        raise Untranslatable(f"helper {f.name} has a parameter list the translator does not inline")
    params = [x.arg for x in a.args]
    actual = list(call.args)
    kw = {k.arg: k.value for k in call.keywords}
    if any(k is None for k in kw):
        raise Untranslatable("**kwargs in a helper call")
    defaults = dict(zip(params[len(params) - len(a.defaults):], a.defaults))
    mapping = {}
    for i, pname in enumerate(params):
        if i < len(actual):
            v = actual[i]
        elif pname in kw:
            v = kw[pname]
        elif pname in defaults:
            v = defaults[pname]
        else:
            raise Untranslatable(f"helper {f.name}: argument {pname} missing")
        if not _simple_arg(v):
            raise Untranslatable(f"helper {f.name}: argument {ast.unparse(v)} is not a name / constant / attribute")
        mapping[pname] = v
    body = [_Subst(mapping).visit(copy.deepcopy(st)) for st in _strip_doc(f.body)]
    return inline_helpers(body, fns, depth + 1)


def _inline_expr(e, fns, depth):
    """calls to single-`return` helpers inside an expression are replaced by the returned expression"""
    class T(ast.NodeTransformer):
        def visit_Call(self, node):
            self.generic_visit(node)
            if isinstance(node.func, ast.Name) and node.func.id in fns:
                hb = _helper_body(node, fns, depth)
                if hb is not None and len(hb) == 1 and isinstance(hb[0], ast.Return) and hb[0].value is not None:
                    return hb[0].value
                raise Untranslatable(f"call of helper {node.func.id} in an expression (its body is not a single return)")
            return node
    return T().visit(e)


def inline_helpers(stmts, fns, depth=0):
    """Tail calls `return helper(...)` and calls inside expressions to module-level helper functions are expanded in place, so that
    extracting shared code into helpers does not put a validator outside the translated fragment."""
    out = []
    for st in stmts:
        if isinstance(st, ast.Return) and isinstance(st.value, ast.Call) and isinstance(st.value.func, ast.Name) and st.value.func.id in fns:
            hb = _helper_body(st.value, fns, depth)
            out.extend(hb)
            continue
        if isinstance(st, ast.Raise) and isinstance(st.exc, ast.Call) and isinstance(st.exc.func, ast.Name) and st.exc.func.id in fns and st.cause is None:
            # raise helper(...)  where the helper builds and returns the exception
            hb = _helper_body(st.exc, fns, depth)
            if hb and isinstance(hb[-1], ast.Return) and hb[-1].value is not None and not any(isinstance(x, ast.Return) for y in hb[:-1] for x in ast.walk(y)):
                out.extend(hb[:-1])
                out.append(ast.Raise(exc=hb[-1].value, cause=None))
                continue
            raise Untranslatable(f"raise {st.exc.func.id}(...): the helper is not straight-line code ending in one return")
        if isinstance(st, ast.If):
            st.test = _inline_expr(st.test, fns, depth)
            st.body = inline_helpers(st.body, fns, depth)
            st.orelse = inline_helpers(st.orelse, fns, depth)
            out.append(st)
            continue
        if isinstance(st, (ast.Assign, ast.Return, ast.Raise, ast.Expr)):
            st = _inline_expr(st, fns, depth)
        out.append(st)
    return out


def esc(s):
    return s.replace("\\", "\\\\").replace('"', '\\"').replace("\n", "\\n")


def main():
    src = inspect.getsource(validators)
    tree = ast.parse(src)
    consts = {k: v for k, v in vars(validators).items() if k.upper() == k and isinstance(v, int) and not isinstance(v, bool)}
    fns = {n.name: n for n in tree.body if isinstance(n, ast.FunctionDef)}
    out = ["-- generated by tools/extract/x_valid.py from " + inspect.getsourcefile(validators),
           "import LspVerif.Core.Valid", "open LspVerif", "namespace Gen", ""]
    for k, v in sorted(consts.items()):
        out.append(f"def {k} : Int := {v}")
    out.append("")
    for name in ("integer_validator", "uinteger_validator"):
        f = fns.get(name)
        if f is None or getattr(validators, name, None) is None:
            raise Untranslatable(f"{name} is not defined in validators.py")
        a = [x.arg for x in f.args.args]
        if len(a) != 3:
            raise Untranslatable(f"{name} takes {a}")
        import copy
        helpers = {k: v for k, v in fns.items() if k not in ("integer_validator", "uinteger_validator")}
        fbody = inline_helpers(copy.deepcopy(_strip_doc(f.body)), helpers)
        branches = []
        for kind in KINDS:
            tr = Tr(a, kind, consts)
            body = tr.block(copy.deepcopy(fbody))
            pat = PAT[kind]
            if kind == "int" and "i" not in body.replace("if", "").replace("lit", "").replace("int", "").replace("decide", ""):
                pat = ".int _"
            if kind == "bool" and "(if b then" not in body:
                pat = ".bool _"
            branches.append(f"  | {pat} => {body}")
        out.append(f"def {name} (v : PV) : VR :=\n  match v with\n" + "\n".join(branches) + "\n")
    out.append("def vldEnv : VldEnv := { int32 := integer_validator, uint31 := uinteger_validator }")
    out.append("end Gen")
    print("\n".join(out))


if __name__ == "__main__":
    try:
        main()
    except Untranslatable as e:
        print(f"UNTRANSLATABLE: {e}", file=sys.stderr)
        sys.exit(3)
