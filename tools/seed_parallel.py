#!/usr/bin/env python3
"""Re-run the checks against several seeded changes at once.

  tools/seed_parallel.py [-j N] C12 C12b C13 ...

Each seeded change gets its own scratch worktree of /repo HEAD (outside /repo and /verif) with the patch applied; the related
checks run with VERIF_REPO pointing at that worktree (every tool reads the repository through VERIF_REPO), so /repo itself is
never touched and several changes can be processed concurrently.  Runs of the same property are serialised by a lock (they share
.work/<property>).  Updates `checks_run_against_patched_repo` / `caught_by` in seeded/<id>/meta.json; the demo / test-suite
confirmation of tools/seed_confirm.py is not repeated.  Evidence files are overwritten by these runs: `git checkout evidence/`
afterwards.
"""
import fcntl
import json
import os
import pathlib
import re
import shutil
import subprocess
import sys
import tempfile
from concurrent.futures import ThreadPoolExecutor

VERIF = pathlib.Path(__file__).resolve().parent.parent
sys.path.insert(0, str(VERIF / "tools"))
from seed_confirm import RELATED  # noqa: E402


def one(sid):
    d = VERIF / DIR / sid
    if CHECKS:
        pid, checks = sid, CHECKS
    else:
        pid = re.match(r"C\d+", sid).group(0)
        checks = RELATED.get(pid, [pid])
    meta = json.load(open(d / "meta.json")) if (d / "meta.json").exists() else {"seeded_id": sid, "property": pid}
    wt = pathlib.Path(tempfile.mkdtemp(prefix=f"lspverif-pseed-{sid}-"))
    shutil.rmtree(wt)
    results = {}
    try:
        r = subprocess.run(["git", "-C", "/repo", "worktree", "add", "-q", "--detach", str(wt), "HEAD"], capture_output=True, text=True)
        if r.returncode != 0:
            return sid, {"error": r.stderr[-300:]}
        demo = next(d.glob("demo_*.py"), None)
        if CONFIRM and demo is not None:
            # the demonstration passes on HEAD, the baseline tests pass with the patch, the demonstration fails with it
            penv = dict(os.environ)
            penv["PYTHONPATH"] = f"{wt}:{wt}/packages/python"
            penv["PYTHONDONTWRITEBYTECODE"] = "1"
            shutil.copy(demo, wt / demo.name)
            a0 = subprocess.run(["/venv/bin/python", "-B", demo.name], cwd=str(wt), env=penv, capture_output=True, text=True, timeout=3600)
            meta["demo_without_patch_exit"] = a0.returncode
        a = subprocess.run(["git", "-C", str(wt), "apply", str(d / "patch.diff")], capture_output=True, text=True)
        meta["patch_applies_to_head"] = a.returncode == 0
        if a.returncode != 0:
            return sid, {"error": "patch does not apply: " + a.stderr[-300:]}
        if CONFIRM and demo is not None:
            t = subprocess.run(["/venv/bin/python", "-m", "pytest", "-q", "-p", "no:cacheprovider", "--timeout=900"], cwd=str(wt), env=penv, capture_output=True, text=True, timeout=3600)
            m = re.search(r"(\d+) passed", t.stdout)
            meta["baseline_tests_with_patch"] = t.stdout.strip().splitlines()[-1] if t.stdout.strip() else t.stderr[-200:]
            meta["baseline_tests_pass_with_patch"] = bool(m and int(m.group(1)) >= 122 and " failed" not in t.stdout)
            b = subprocess.run(["/venv/bin/python", "-B", demo.name], cwd=str(wt), env=penv, capture_output=True, text=True, timeout=3600)
            meta["demo_with_patch_exit"] = b.returncode
            meta["demo_with_patch_output"] = (b.stdout + b.stderr)[-400:]
            meta["confirmed"] = bool(meta.get("demo_without_patch_exit") == 0 and b.returncode != 0 and meta["baseline_tests_pass_with_patch"])
            (wt / demo.name).unlink(missing_ok=True)
            meta["what_was_run"] = ("scratch worktree of /repo HEAD: demo (exit 0) ; git apply patch.diff ; pytest baseline ; demo (non-zero) ; then, in the same worktree, "
                                    "VERIF_REPO=<worktree> ./check <ids> ; worktree removed (tools/seed_parallel.py --confirm)")
        env = dict(os.environ)
        env["VERIF_REPO"] = str(wt)
        for c in checks:
            (VERIF / ".work").mkdir(exist_ok=True)
            with open(VERIF / ".work" / f".{c}.plock", "w") as lk:
                fcntl.flock(lk, fcntl.LOCK_EX)
                p = subprocess.run([str(VERIF / "check"), c], cwd=str(VERIF), capture_output=True, text=True, env=env, timeout=7200)
            out = p.stdout + p.stderr
            viol = [l for l in out.splitlines() if l.startswith("VIOLATION")]
            results[c] = {"exit": p.returncode, "violations": len(viol),
                          "with_concrete_replay": len([l for l in viol if "no-failing-input-found" not in l]),
                          "first": viol[0] if viol else "",
                          "summary": next((l for l in reversed(out.splitlines()) if l.startswith(f"[{c}]")), out[-200:])}
    finally:
        subprocess.run(["git", "-C", "/repo", "worktree", "remove", "--force", str(wt)], capture_output=True)
        shutil.rmtree(wt, ignore_errors=True)
    merged = dict(meta.get("checks_run_against_patched_repo") or {}) if CHECKS else {}
    merged.update(results)
    results = merged
    meta["checks_run_against_patched_repo"] = results
    meta["caught_by"] = [c for c, r in results.items() if r["exit"] == 1]
    json.dump(meta, open(d / "meta.json", "w"), indent=1)
    return sid, {"confirmed": meta.get("confirmed"), "caught_by": meta["caught_by"], "silent": [c for c, r in results.items() if r["exit"] == 0], "broken": [c for c, r in results.items() if r["exit"] not in (0, 1)]}


CONFIRM = False
DIR = "seeded"
CHECKS = None


def main():
    global CONFIRM, DIR, CHECKS
    args = sys.argv[1:]
    if "--dir" in args:      # e.g. --dir harmless : behaviour-preserving refactorings (a check that exits non-zero there is a false alarm)
        i = args.index("--dir")
        DIR = args[i + 1]
        del args[i:i + 2]
    if "--checks" in args:
        i = args.index("--checks")
        CHECKS = args[i + 1].split(",")
        del args[i:i + 2]
    if "--confirm" in args:
        CONFIRM = True
        args.remove("--confirm")
    j = 4
    if args and args[0] == "-j":
        j = int(args[1])
        args = args[2:]
    with ThreadPoolExecutor(max_workers=j) as ex:
        for sid, res in ex.map(one, args):
            print(json.dumps({"seeded_id": sid, **res}), flush=True)


if __name__ == "__main__":
    main()
