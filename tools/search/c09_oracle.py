"""Direct oracle for C09 on the real package (method catalogue, directions, constants, registry).
Usage: python c09_oracle.py [--pkgdir DIR]  -> JSON list of mismatches"""
import ast
import enum
import inspect
import json
import os
import re
import sys
import typing

sys.path.insert(0, os.path.dirname(os.path.abspath(__file__)))
sys.path.insert(0, os.path.dirname(os.path.dirname(os.path.abspath(__file__))))
from oracle_common import M, py_of, Unmappable  # noqa: E402
import attrs  # noqa: E402
from lsprotocol import types  # noqa: E402


def upper_snake(m):
    s = m[1:] if m.startswith("$") else m
    s = s[1:] if s.startswith("/") else s
    s = s.replace("/", "_")
    s = re.sub("(.)([A-Z][a-z]+)", r"\1_\2", s)
    s = re.sub("([a-z0-9])([A-Z])", r"\1_\2", s)
    return s.upper()


def suffixed(t, suf):
    return t if t.endswith(suf) else t + suf


def msg_ty(t, cls, suffix):
    if t is None:
        return None
    if t["kind"] == "and":
        return getattr(types, cls + suffix, f"<missing {cls + suffix}>")
    return py_of(t)


def resolved(x):
    if x is None or isinstance(x, type):
        return x
    try:
        return typing._eval_type(x, dict(types.ALL_TYPES_MAP), {})
    except Exception:  # noqa: BLE001
        return x


def main():
    mism = []

    def add(site, aspect, expected, observed):
        mism.append({"site": site, "aspect": aspect, "expected": str(expected), "observed": str(observed)})

    methods = set()
    for kind, lst in (("request", M["requests"]), ("notification", M["notifications"])):
        for r in lst:
            m = r["method"]
            methods.add(m)
            import valuegen
            tn = valuegen.Meta.class_base_name(r)
            cn = suffixed(tn, "Request" if kind == "request" else "Notification")
            cls = getattr(types, cn, None)
            entry = types.METHOD_TO_TYPES.get(m)
            if entry is None:
                add(m, "catalogue-entry", "present", "absent")
                continue
            if entry[0] is not cls or cls is None:
                add(m, "request-class", cn, entry[0])
            if kind == "request":
                rn = cn[: -len("Request")] + "Response"
                if entry[1] is not getattr(types, rn, None) or entry[1] is None:
                    add(m, "response-class", rn, entry[1])
            elif entry[1] is not None:
                add(m, "response-class", None, entry[1])
            try:
                ep = msg_ty(r.get("params"), cn, "Params")
                if resolved(entry[2]) != ep:
                    add(m, "params-type", ep, entry[2])
                eo = msg_ty(r.get("registrationOptions"), cn, "Options")
                if resolved(entry[3]) != eo:
                    add(m, "registration-options-type", eo, entry[3])
            except Unmappable as e:
                add(m, "params-type", f"unmappable {e}", entry[2])
            if cls is not None and attrs.has(cls):
                d = attrs.fields(cls).method.default if hasattr(attrs.fields(cls), "method") else "<no method attr>"
                if d != m:
                    add(m, "default-method", m, d)
                try:
                    kw = {"id": 1} if kind == "request" else {}
                    if r.get("params"):
                        kw["params"] = None
                    if cls(**kw).method != m:
                        add(m, "default-method-instance", m, cls(**kw).method)
                except Exception as e:  # noqa: BLE001
                    add(m, "default-method-instance", m, repr(e))
            try:
                d = types.message_direction(m)
            except Exception as e:  # noqa: BLE001
                d = repr(e)
            if d != r["messageDirection"]:
                add(m, "direction", r["messageDirection"], d)
            if getattr(types, upper_snake(m), None) != m:
                add(m, "method-constant", f"{upper_snake(m)} = {m!r}", getattr(types, upper_snake(m), None))
    for m in types.METHOD_TO_TYPES:
        if m not in methods:
            add(m, "extra-catalogue-entry", "", m)
    for m in types._MESSAGE_DIRECTION:
        if m not in methods:
            add(m, "extra-direction-entry", "", m)
    for k, v in vars(types).items():
        if isinstance(v, str) and k.upper() == k and not k.startswith("_") and v not in methods:
            add(k, "extra-method-constant", "", v)
    # registry
    tree = ast.parse(open(inspect.getsourcefile(types), encoding="utf-8").read())
    for node in tree.body:
        nm = None
        if isinstance(node, ast.ClassDef):
            nm = node.name
        elif isinstance(node, ast.Assign) and len(node.targets) == 1 and isinstance(node.targets[0], ast.Name):
            nm = node.targets[0].id
            if nm.startswith("_") or nm.upper() == nm:
                nm = None
        if nm is None:
            continue
        if nm not in types.ALL_TYPES_MAP:
            add(nm, "registry-missing", nm, "absent")
        elif types.ALL_TYPES_MAP[nm] is not getattr(types, nm):
            add(nm, "registry-wrong-object", getattr(types, nm), types.ALL_TYPES_MAP[nm])
    for v in list(types.ALL_TYPES_MAP.values()):
        if isinstance(v, type) and attrs.has(v):
            try:
                attrs.resolve_types(v, dict(types.ALL_TYPES_MAP), {})
            except Exception as e:  # noqa: BLE001
                add(v.__name__, "forward-reference-unresolved", "resolves", repr(e)[:120])
    json.dump(mism, sys.stdout)


if __name__ == "__main__":
    main()
