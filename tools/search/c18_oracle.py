"""Direct oracle for C18 on the real generator.model / CLI (lossless load, merge, equality, gate).

Usage: python c18_oracle.py [--seed N] [--thorough] [--no-cli]
Output JSON {evaluations, distinct, samples, mismatches:[{site, aspect, expected, observed, input}]}
"""
import copy
import json
import os
import pathlib
import random
import shutil
import subprocess
import sys
import tempfile

import attrs
import jsonschema

REPO = pathlib.Path(os.environ.get("VERIF_REPO", "/repo"))
sys.path.insert(0, str(REPO))
from generator import model  # noqa: E402

args = sys.argv[1:]
SEED = int(args[args.index("--seed") + 1]) if "--seed" in args else 0
THOROUGH = "--thorough" in args
SCHEMA = json.load(open(REPO / "generator/lsp.schema.json"))
DOC = json.load(open(REPO / "generator/lsp.json"))
ANNOT = ("documentation", "since", "sinceTags", "deprecated", "proposed", "supportsCustomValues", "typeName")


def readback(o):
    """The model's content as a JSON document (ids are not content)."""
    if attrs.has(type(o)):
        out = {}
        for f in attrs.fields(type(o)):
            if f.name == "id_":
                continue
            out[f.name] = readback(getattr(o, f.name))
        return out
    if isinstance(o, (list, tuple)):
        return [readback(x) for x in o]
    return o


def lossless(doc, back, path="$"):
    """None if `back` equals `doc` (every key of doc present with the same content, in order for
    lists; keys only in back must be unset: None or [])."""
    if isinstance(doc, dict):
        if not isinstance(back, dict):
            return f"{path}: object became {type(back).__name__}"
        for k, v in doc.items():
            if k not in back:
                return f"{path}.{k}: dropped"
            r = lossless(v, back[k], f"{path}.{k}")
            if r:
                return r
        for k, v in back.items():
            if k not in doc and v not in (None, []):
                return f"{path}.{k}: appeared as {v!r}"
        return None
    if isinstance(doc, list):
        if not isinstance(back, list) or len(back) != len(doc):
            return f"{path}: list length {len(doc)} -> {len(back) if isinstance(back, list) else type(back).__name__}"
        for i, (a, b) in enumerate(zip(doc, back)):
            r = lossless(a, b, f"{path}[{i}]")
            if r:
                return r
        return None
    if type(doc) is not type(back) or doc != back:
        return f"{path}: {doc!r} -> {back!r}"
    return None


def schema_valid(d):
    try:
        jsonschema.validate(d, SCHEMA)
        return True
    except jsonschema.ValidationError:
        return False


# ---- seeded schema-preserving edits of the committed document
def all_types(d):
    """yield (container, key) slots holding a Type object"""
    def walk(t, setter):
        yield t, setter
        k = t["kind"]
        if k == "array":
            yield from walk(t["element"], lambda v, t=t: t.__setitem__("element", v))
        elif k == "map":
            yield from walk(t["value"], lambda v, t=t: t.__setitem__("value", v))
        elif k in ("or", "and", "tuple"):
            for i, x in enumerate(t["items"]):
                yield from walk(x, lambda v, t=t, i=i: t["items"].__setitem__(i, v))
        elif k == "literal":
            for p in t["value"]["properties"]:
                yield from walk(p["type"], lambda v, p=p: p.__setitem__("type", v))
    for s in d["structures"]:
        for p in s["properties"]:
            yield from walk(p["type"], lambda v, p=p: p.__setitem__("type", v))
    for a in d["typeAliases"]:
        yield from walk(a["type"], lambda v, a=a: a.__setitem__("type", v))
    for r in d["requests"] + d["notifications"]:
        for k in ("params", "result", "partialResult", "errorData", "registrationOptions"):
            if k in r and isinstance(r[k], dict):
                yield from walk(r[k], lambda v, r=r, k=k: r.__setitem__(k, v))


STRUCTURAL_EDITS = ["items-drop-last", "items-append", "items-drop-first", "extends-drop-last", "props-drop-last", "values-append", "prop-type", "prop-rename", "prop-drop", "prop-optional", "enum-value", "enum-drop", "method", "direction",
                    "alias-type", "struct-rename", "extends", "params", "result", "lit-value", "map-key", "struct-drop", "version"]
ANNOT_EDITS = ["doc", "since", "proposed", "deprecated", "sinceTags"]


def apply_edit(d, kind, rnd):
    d = copy.deepcopy(d)
    S = d["structures"]
    if kind in ("items-drop-last", "items-append", "items-drop-first"):
        want = rnd.choice(["or", "and", "tuple", "or"])
        slots = [(t, st) for t, st in all_types(d) if t["kind"] == want and len(t["items"]) >= 2] or [(t, st) for t, st in all_types(d) if t["kind"] == "or"]
        t, _ = rnd.choice(slots)
        if kind == "items-drop-last":
            t["items"].pop()
        elif kind == "items-drop-first":
            t["items"].pop(0)
        else:
            t["items"].append({"kind": "base", "name": "RegExp"})
    elif kind == "extends-drop-last":
        s = rnd.choice([s for s in S if (s.get("extends") or s.get("mixins"))])
        (s["extends"] if s.get("extends") else s["mixins"]).pop()
    elif kind == "props-drop-last":
        rnd.choice([s for s in S if len(s["properties"]) >= 2])["properties"].pop()
    elif kind == "values-append":
        e = rnd.choice(d["enumerations"])
        e["values"].append({"name": "ExtraMember", "value": "extra" if isinstance(e["values"][0]["value"], str) else 987654})
    elif kind == "prop-type":
        s = rnd.choice([s for s in S if s["properties"]])
        rnd.choice(s["properties"])["type"] = {"kind": "base", "name": "RegExp"}
    elif kind == "prop-rename":
        s = rnd.choice([s for s in S if s["properties"]])
        rnd.choice(s["properties"])["name"] += "X"
    elif kind == "prop-drop":
        s = rnd.choice([s for s in S if s["properties"]])
        s["properties"].pop(rnd.randrange(len(s["properties"])))
    elif kind == "prop-optional":
        s = rnd.choice([s for s in S if s["properties"]])
        p = rnd.choice(s["properties"])
        p["optional"] = not p.get("optional", False)
    elif kind == "enum-value":
        e = rnd.choice(d["enumerations"])
        v = rnd.choice(e["values"])
        v["value"] = (v["value"] + "x") if isinstance(v["value"], str) else v["value"] + 1000
    elif kind == "enum-drop":
        e = rnd.choice([e for e in d["enumerations"] if len(e["values"]) > 1])
        e["values"].pop()
    elif kind == "method":
        rnd.choice(d["requests"] + d["notifications"])["method"] += "/x"
    elif kind == "direction":
        r = rnd.choice(d["requests"] + d["notifications"])
        r["messageDirection"] = "both" if r["messageDirection"] != "both" else "clientToServer"
    elif kind == "alias-type":
        rnd.choice(d["typeAliases"])["type"] = {"kind": "base", "name": "RegExp"}
    elif kind == "struct-rename":
        rnd.choice(S)["name"] += "X"
    elif kind == "extends":
        s = rnd.choice(S)
        s["extends"] = (s.get("extends") or []) + [{"kind": "reference", "name": "WorkDoneProgressOptions"}]
    elif kind == "params":
        r = rnd.choice([r for r in d["requests"] + d["notifications"] if "params" in r])
        r["params"] = {"kind": "reference", "name": "NoSuchParams"}
    elif kind == "result":
        rnd.choice(d["requests"])["result"] = {"kind": "base", "name": "RegExp"}
    elif kind == "lit-value":
        slots = [(t, st) for t, st in all_types(d) if t["kind"] == "stringLiteral"]
        t, _ = rnd.choice(slots)
        t["value"] += "x"
    elif kind == "map-key":
        slots = [(t, st) for t, st in all_types(d) if t["kind"] == "map"]
        t, _ = rnd.choice(slots)
        t["key"] = {"kind": "base", "name": "integer"} if t["key"].get("name") != "integer" else {"kind": "base", "name": "string"}
    elif kind == "struct-drop":
        S.pop(rnd.randrange(len(S)))
    elif kind == "version":
        d["metaData"]["version"] += ".1"
    elif kind == "doc":
        rnd.choice(S)["documentation"] = "changed documentation " + str(rnd.random())
    elif kind == "since":
        s = rnd.choice([s for s in S if s["properties"]])
        rnd.choice(s["properties"])["since"] = "9.9.9"
    elif kind == "proposed":
        rnd.choice(d["requests"])["proposed"] = True
    elif kind == "deprecated":
        rnd.choice(d["enumerations"])["deprecated"] = "use something else"
    elif kind == "sinceTags":
        rnd.choice(S)["sinceTags"] = ["1.0", "2.0"]
    return d


def schema_feature_docs():
    """small schema-valid documents exercising every construct the schema allows"""
    base = {"metaData": {"version": "1.0"}, "requests": [], "notifications": [], "structures": [], "enumerations": [], "typeAliases": []}
    out = []
    for kind, val in (("integerLiteral", 5), ("booleanLiteral", True), ("stringLiteral", "x")):
        d = copy.deepcopy(base)
        d["structures"].append({"name": "S", "properties": [{"name": "p", "type": {"kind": kind, "value": val}}]})
        out.append((f"kind:{kind}", d))
    d = copy.deepcopy(base)
    d["structures"].append({"name": "S", "properties": [
        {"name": "m", "type": {"kind": "map", "key": {"kind": "reference", "name": "K"}, "value": {"kind": "base", "name": "string"}}},
        {"name": "l", "optional": True, "type": {"kind": "literal", "value": {"properties": [{"name": "q", "type": {"kind": "base", "name": "null"}}]}}},
        {"name": "t", "type": {"kind": "tuple", "items": [{"kind": "base", "name": "uinteger"}, {"kind": "base", "name": "decimal"}]}},
        {"name": "a", "type": {"kind": "and", "items": [{"kind": "reference", "name": "S"}]}},
    ], "extends": [{"kind": "reference", "name": "S"}], "mixins": [{"kind": "reference", "name": "S"}], "proposed": True, "since": "1", "sinceTags": ["1"], "deprecated": "x", "documentation": "doc"})
    d["enumerations"].append({"name": "E", "type": {"kind": "base", "name": "uinteger"}, "values": [{"name": "a", "value": 1, "proposed": True}], "supportsCustomValues": True})
    d["typeAliases"].append({"name": "K", "type": {"kind": "base", "name": "string"}, "deprecated": "y"})
    d["requests"].append({"method": "m/x", "result": {"kind": "base", "name": "null"}, "messageDirection": "both", "errorData": {"kind": "base", "name": "string"},
                          "partialResult": {"kind": "base", "name": "string"}, "registrationMethod": "m", "registrationOptions": {"kind": "reference", "name": "S"}})
    d["notifications"].append({"method": "n/x", "messageDirection": "serverToClient", "typeName": "NX", "params": {"kind": "reference", "name": "S"}})
    out.append(("all-constructs", d))
    d = copy.deepcopy(base)
    d["structures"].append({"name": "S", "properties": [{"name": "l", "type": {"kind": "literal", "value": {
        "properties": [], "documentation": "d", "since": "1", "proposed": True, "deprecated": "x", "sinceTags": ["1"]}}}]})
    out.append(("literal-annotations", d))
    return out


def main():
    rnd = random.Random(SEED)
    mism = []
    evals = 0
    samples = []

    def add(site, aspect, expected, observed, inp=None):
        mism.append({"site": site, "aspect": aspect, "expected": str(expected)[:300], "observed": str(observed)[:300], "input": inp})

    def load(docs):
        return model.create_lsp_model(copy.deepcopy(docs))

    # 1. lossless on the committed document and on schema-valid feature documents / edits
    docs = [("committed", DOC)] + schema_feature_docs()
    n_edits = 40 if THOROUGH else 12
    for i in range(n_edits):
        k = rnd.choice(STRUCTURAL_EDITS + ANNOT_EDITS)
        d = apply_edit(DOC, k, rnd)
        if schema_valid(d):
            docs.append((f"edit:{k}", d))
    for tag, d in docs:
        evals += 1
        if not schema_valid(d):
            continue
        try:
            m = load([d])
        except Exception as e:  # noqa: BLE001
            add(f"load|{tag}", "schema-valid-document-fails-to-load", "loads", f"{type(e).__name__}: {e}"[:200], d if len(json.dumps(d)) < 3000 else tag)
            continue
        r = lossless(d, readback(m))
        if r:
            add(f"lossless|{tag}", "content-differs", "read-back equals the document", r, tag)
    samples.append({"lossless_documents": [t for t, _ in docs][:8]})
    # 2. merge = concatenation
    small = [d for t, d in docs if t == "all-constructs"][0]
    for combo in ([DOC, small], [small, small, small], [DOC, small, small]):
        evals += 1
        try:
            m = load(combo)
            exp = copy.deepcopy(combo[0])
            for x in combo[1:]:
                for k in ("requests", "notifications", "structures", "enumerations", "typeAliases"):
                    exp[k] = exp[k] + x[k]
            r = lossless(exp, readback(m))
            if r:
                add("merge", "not-concatenation", "first model extended in order", r, None)
        except Exception as e:  # noqa: BLE001
            add("merge", "merge-raises", "merged model", repr(e)[:200], None)
    # 2b. loading is a function of the documents: it does not write into them, and a later load does not change an earlier model.
    #     The SAME in-memory documents are loaded repeatedly (no copy): first documents with empty top-level sections (lists the merge
    #     extends), with structures that have no extends / mixins (shared defaults), then merged with a non-empty extension.
    for empty in ([], ["notifications"], ["requests", "notifications"], ["typeAliases", "enumerations"]):
        a_doc = copy.deepcopy(small)
        for k in empty:
            a_doc[k] = []
        b_doc = copy.deepcopy(small)
        a0, b0 = copy.deepcopy(a_doc), copy.deepcopy(b_doc)
        exp = copy.deepcopy(a0)
        for k in ("requests", "notifications", "structures", "enumerations", "typeAliases"):
            exp[k] = exp[k] + b0[k]
        evals += 1
        tag = "empty:" + ",".join(empty)
        try:
            m1 = model.create_lsp_model([a_doc, b_doc])
            if a_doc != a0 or b_doc != b0:
                add(f"merge|{tag}", "loading-writes-into-its-input-document", "input documents unchanged", "the first document now has " +
                    str({k: len(a_doc[k]) for k in ("requests", "notifications", "structures", "enumerations", "typeAliases")}) + " entries; before: " +
                    str({k: len(a0[k]) for k in ("requests", "notifications", "structures", "enumerations", "typeAliases")}), {"emptied_sections": empty})
            r1 = lossless(exp, readback(m1))
            if r1:
                add(f"merge|{tag}", "not-concatenation", "first model extended in order", r1, {"emptied_sections": empty})
            m2 = model.create_lsp_model([a_doc, b_doc])
            r2 = lossless(exp, readback(m2))
            if r2 or not (m1 == m2):
                add(f"merge|{tag}", "second-load-of-the-same-documents-differs", "same model as the first load", r2 or "models compare unequal", {"emptied_sections": empty})
            r1b = lossless(exp, readback(m1))
            if r1b:
                add(f"merge|{tag}", "earlier-model-changed-by-a-later-load", "the first model still reads back as first ++ second", r1b, {"emptied_sections": empty})
            m3 = model.create_lsp_model([a_doc])
            r3 = lossless(a0, readback(m3))
            if r3:
                add(f"merge|{tag}", "single-load-after-merge-differs", "the first document alone", r3, {"emptied_sections": empty})
        except Exception as e:  # noqa: BLE001
            add(f"merge|{tag}", "merge-raises", "merged model", repr(e)[:200], {"emptied_sections": empty})
    # 3. equality: same document equal, structurally different unequal, never raises
    for tag, d in docs:
        if not schema_valid(d):
            continue
        try:
            a, b = load([d]), load([d])
        except Exception:  # noqa: BLE001
            continue
        evals += 1
        try:
            if not (a == b):
                add(f"eq|{tag}", "two-loads-unequal", True, False, tag)
        except Exception as e:  # noqa: BLE001
            add(f"eq|{tag}", "comparison-raises", True, repr(e)[:200], tag)
    base = load([DOC])
    # trailing-member edits of every or / and / tuple kind (a comparison that stops at the shorter list misses exactly these)
    for want in ("or", "and", "tuple"):
        for how in ("drop-last", "append"):
            d = copy.deepcopy(DOC)
            slots = [t for t, _ in all_types(d) if t["kind"] == want and len(t["items"]) >= 2]
            if not slots:
                continue
            t = slots[rnd.randrange(len(slots))]
            if how == "drop-last":
                t["items"].pop()
            else:
                t["items"].append({"kind": "base", "name": "RegExp"})
            try:
                other = load([d])
            except Exception:  # noqa: BLE001
                continue
            evals += 1
            try:
                if base == other or other == base:
                    add(f"eq|{want}-items-{how}", "structurally-different-documents-compare-equal", False, True, f"{want} items {how}")
            except Exception as e:  # noqa: BLE001
                add(f"eq|{want}-items-{how}", "comparison-raises", False, repr(e)[:200], None)
    for k in STRUCTURAL_EDITS * (3 if THOROUGH else 1):
        d = apply_edit(DOC, k, rnd)
        try:
            other = load([d])
        except Exception:  # noqa: BLE001
            continue
        evals += 1
        try:
            if base == other:
                add(f"eq|{k}", "structurally-different-documents-compare-equal", False, True, k)
            if not (base != other):
                pass
        except Exception as e:  # noqa: BLE001
            add(f"eq|{k}", "comparison-raises", False, repr(e)[:200], k)
    # per node class: comparing with unrelated objects never raises
    for o in (None, 1, "x", {}, []):
        try:
            base == o  # noqa: B015
            base.structures[0] == o  # noqa: B015
            base.typeAliases[0] == o  # noqa: B015
        except Exception as e:  # noqa: BLE001
            add("eq|unrelated", "comparison-raises", False, repr(e)[:200], repr(o))
    # 4. the gate: a schema-violating model makes the command fail before any plugin writes
    if "--no-cli" not in args:
        bad_edits = []
        d = copy.deepcopy(DOC); next(s for s in d["structures"] if s["properties"])["properties"][0].pop("type", None); bad_edits.append(("missing-required-type", d))
        d = copy.deepcopy(DOC); d["requests"][0]["messageDirection"] = "sideways"; bad_edits.append(("enum-violation", d))
        d = copy.deepcopy(DOC); d["structures"][0]["unknownKey"] = 1; bad_edits.append(("additional-property", d))
        d = copy.deepcopy(DOC); del d["metaData"]; bad_edits.append(("missing-metaData", d))
        if THOROUGH:
            d = copy.deepcopy(DOC); d["enumerations"][0]["values"] = "x"; bad_edits.append(("wrong-type", d))
        tmp = pathlib.Path(tempfile.mkdtemp(prefix="lspverif-c18-"))
        try:
            for tag, d in bad_edits:
                if schema_valid(d):
                    continue
                mf = tmp / f"{tag}.json"
                mf.write_text(json.dumps(d))
                for plugin in ("python", "rust", "dotnet", "testdata"):
                    evals += 1
                    out = tmp / f"out-{tag}-{plugin}"
                    # second model file after a good one: the gate must look at every file
                    good = REPO / "generator/lsp.json"
                    p = subprocess.run([sys.executable, "-B", "-m", "generator", "--model", str(good), str(mf), "--plugin", plugin,
                                        "--output-dir", str(out), "--test-dir", str(tmp / "t")], cwd=str(REPO), capture_output=True, text=True)
                    wrote = out.exists() and any(out.rglob("*"))
                    if p.returncode == 0:
                        add(f"gate|{tag}|{plugin}", "command-succeeds-on-invalid-model", "non-zero exit", 0, tag)
                    if wrote:
                        add(f"gate|{tag}|{plugin}", "output-written-for-invalid-model", "nothing written", sorted(str(x.relative_to(out)) for x in out.rglob("*"))[:3], tag)
                    shutil.rmtree(out, ignore_errors=True)
        finally:
            shutil.rmtree(tmp, ignore_errors=True)
    json.dump({"evaluations": evals, "distinct": evals, "samples": samples, "mismatches": mism}, sys.stdout)


if __name__ == "__main__":
    main()
