"""Shared helpers of the direct Python oracles (C04, C09, C10, C13): the property stated in plain Python over
generator/lsp.json and the live `attrs.fields`, independent of the Lean model.  It is trusted only
to *exhibit* a failing (class, property, aspect); it never establishes that the property holds.

Usage: python c04_oracle.py [--pkgdir DIR] [--model FILE ...]   -> JSON list of mismatches
"""
import enum
import json
import os
import sys
import typing
from typing import Any, Dict, Optional, Sequence, Tuple, Union

args = sys.argv[1:]
if "--pkgdir" in args:
    sys.path.insert(0, args[args.index("--pkgdir") + 1])
models = []
if "--model" in args:
    models = args[args.index("--model") + 1:]

import attrs  # noqa: E402
from lsprotocol import types, validators  # noqa: E402

REPO = os.environ.get("VERIF_REPO", "/repo")


def load():
    paths = models or [os.path.join(REPO, "generator", "lsp.json")]
    docs = [json.load(open(p, encoding="utf-8")) for p in paths]
    d = docs[0]
    for x in docs[1:]:
        for k in ("requests", "notifications", "structures", "enumerations", "typeAliases"):
            d[k] = d.get(k, []) + x.get(k, [])
    return d


M = load()
STRUCTS = {s["name"]: s for s in M["structures"]}
ENUMS = {e["name"]: e for e in M["enumerations"]}
ALIASES = {a["name"]: a for a in M["typeAliases"]}
BASE = {"decimal": float, "boolean": bool, "integer": int, "uinteger": int, "string": str, "DocumentUri": str, "URI": str, "null": type(None)}


class Unmappable(Exception):
    pass


def py_of(t, depth=0):
    if depth > 20:
        raise Unmappable("alias cycle")
    k = t["kind"]
    if k == "base":
        if t["name"] not in BASE:
            raise Unmappable(t["name"])
        return BASE[t["name"]]
    if k == "reference":
        n = t["name"]
        if n == "LSPAny":
            return Optional[Any]
        if n == "LSPObject":
            return types.LSPObject
        if n in ENUMS:
            e = ENUMS[n]
            cls = getattr(types, n)
            if e.get("supportsCustomValues") or n == "CompletionItemKind":
                return Union[cls, str if e["type"]["name"] == "string" else int]
            return cls
        if n in STRUCTS:
            return getattr(types, n)
        if n in ALIASES:
            return py_of(ALIASES[n]["type"], depth + 1)
        raise Unmappable(n)
    if k == "array":
        return Sequence[py_of(t["element"], depth + 1)]
    if k == "map":
        return Dict[py_of(t["key"], depth + 1), py_of(t["value"], depth + 1)]
    if k == "tuple":
        return Tuple[tuple(py_of(i, depth + 1) for i in t["items"])]
    if k == "or":
        return Union[tuple(py_of(i, depth + 1) for i in t["items"])]
    if k == "stringLiteral":
        return str
    if k == "literal" and not t["value"]["properties"]:
        return Any
    raise Unmappable(k)


def null_admitting(t):
    return t["kind"] == "or" and any(i["kind"] == "base" and i["name"] == "null" for i in t["items"])


def flatten(s):
    out, seen = [], set()

    def add(props):
        for p in props:
            if p["name"] not in seen:
                seen.add(p["name"])
                out.append(p)

    def anc(st, depth=0):
        if depth > 400:
            return
        for r in (st.get("extends") or []) + (st.get("mixins") or []):
            ps = STRUCTS.get(r.get("name"))
            if ps is not None:
                yield ps
                yield from anc(ps, depth + 1)

    add(s["properties"])
    for a in anc(s):
        add(a["properties"])
    return out


def vname(v):
    if v is None:
        return "none"
    if v is validators.integer_validator:
        return "integer"
    if v is validators.uinteger_validator:
        return "uinteger"
    cn = type(v).__name__
    if cn == "_InstanceOfValidator":
        return "instance_of(%s)" % v.type.__name__
    if cn == "_InValidator":
        return "in_(%r)" % (list(v.options),)
    if cn == "_OptionalValidator":
        return "optional(%s)" % vname(v.validator)
    return repr(v)


def expected_validator(p, opt):
    t = p["type"]
    if t["kind"] == "stringLiteral":
        return "in_(%r)" % ([t["value"]],)
    v = "none"
    if t["kind"] == "base":
        v = {"integer": "integer", "uinteger": "uinteger", "string": "instance_of(str)", "DocumentUri": "instance_of(str)",
             "URI": "instance_of(str)", "boolean": "instance_of(bool)", "decimal": "instance_of(float)"}.get(t["name"], "none")
    if v != "none" and opt:
        return f"optional({v})"
    return v


def wire_names(cls):
    """wire name of each attribute as a converter sees it (structure side, unstructure side)."""
    from lsprotocol import converters
    conv = converters.get_converter()
    so = getattr(conv.get_structure_hook(cls), "overrides", {}) or {}
    uo = getattr(conv.get_unstructure_hook(cls), "overrides", {}) or {}
    out = {}
    for f in attrs.fields(cls):
        s = so.get(f.name)
        u = uo.get(f.name)
        out[f.name] = ((s.rename if s is not None and s.rename else f.name), (u.rename if u is not None and u.rename else f.name))
    return out




# ---- shape comparison (used where the metamodel type contains an anonymous literal, whose
#      generated class name is a naming detail the property does not fix)
def _flatU(parts):
    out = set()
    for x in parts:
        if x.startswith("U(") and x.endswith(")"):
            out |= set(_splitU(x[2:-1]))
        else:
            out.add(x)
    return sorted(out)


def _splitU(s):
    parts, depth, cur = [], 0, ""
    for ch in s:
        if ch in "({":
            depth += 1
        elif ch in ")}":
            depth -= 1
        if ch == "|" and depth == 0:
            parts.append(cur)
            cur = ""
        else:
            cur += ch
    if cur:
        parts.append(cur)
    return parts


def _U(parts):
    fl = _flatU(parts)
    return fl[0] if len(fl) == 1 else "U(" + "|".join(fl) + ")"


def shape_py(t):
    import collections.abc
    if t is int:
        return "int"
    if t is float:
        return "float"
    if t is str:
        return "str"
    if t is bool:
        return "bool"
    if t is type(None):
        return "None"
    if t is typing.Any:
        return "Any"
    if t is getattr(types, "LSPObject", None):
        return "LSPObject"
    if isinstance(t, type):
        if attrs.has(t):
            if t.__name__ in STRUCTS:
                return t.__name__
            wm = wire_names(t)
            items = []
            for f in attrs.fields(t):
                items.append(f"{wm[f.name][0]}:{shape_py(f.type)}{'' if f.default is attrs.NOTHING else '?'}")
            return "lit{" + ",".join(sorted(items)) + "}"
        return t.__name__
    o, a = typing.get_origin(t), typing.get_args(t)
    if o is typing.Union:
        return _U([shape_py(x) for x in a])
    if o in (collections.abc.Sequence, list):
        return f"S({shape_py(a[0])})"
    if o is dict:
        return f"D({shape_py(a[0])},{shape_py(a[1])})"
    if o is tuple:
        return "T(" + ",".join(shape_py(x) for x in a) + ")"
    if o is typing.Literal:
        return "str"
    return repr(t)


def shape_meta(t, depth=0):
    k = t["kind"]
    if k == "base":
        return {"decimal": "float", "boolean": "bool", "integer": "int", "uinteger": "int", "string": "str", "DocumentUri": "str", "URI": "str", "null": "None"}.get(t["name"], "?" + t["name"])
    if k == "reference":
        n = t["name"]
        if n == "LSPAny":
            return _U(["Any", "None"])
        if n == "LSPObject":
            return "LSPObject"
        if n in ENUMS:
            e = ENUMS[n]
            if e.get("supportsCustomValues") or n == "CompletionItemKind":
                return _U([n, "str" if e["type"]["name"] == "string" else "int"])
            return n
        if n in STRUCTS:
            return n
        if n in ALIASES and depth < 20:
            return shape_meta(ALIASES[n]["type"], depth + 1)
        return "?" + n
    if k == "array":
        return f"S({shape_meta(t['element'], depth + 1)})"
    if k == "map":
        return f"D({shape_meta(t['key'], depth + 1)},{shape_meta(t['value'], depth + 1)})"
    if k == "tuple":
        return "T(" + ",".join(shape_meta(i, depth + 1) for i in t["items"]) + ")"
    if k == "or":
        return _U([shape_meta(i, depth + 1) for i in t["items"]])
    if k == "stringLiteral":
        return "str"
    if k == "literal":
        props = t["value"]["properties"]
        if not props:
            return "Any"
        items = []
        for p in props:
            opt = bool(p.get("optional")) or null_admitting(p["type"])
            sh = shape_meta(p["type"], depth + 1)
            if opt:
                sh = _U([sh, "None"])
            lit = p["type"]["kind"] == "stringLiteral"
            items.append(f"{p['name']}:{sh}{'?' if (opt or lit) else ''}")
        return "lit{" + ",".join(sorted(items)) + "}"
    return "?" + k


def contains_literal(t):
    k = t["kind"]
    if k == "literal":
        return bool(t["value"]["properties"])
    if k == "array":
        return contains_literal(t["element"])
    if k == "map":
        return contains_literal(t["value"])
    if k in ("or", "and", "tuple"):
        return any(contains_literal(i) for i in t["items"])
    return False
