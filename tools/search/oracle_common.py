"""Shared helpers of the direct Python oracles (C04, C09, C10, C13): the property stated in plain Python over
generator/lsp.json and the live `attrs.fields`, independent of the Lean model.  It is trusted only
to *exhibit* a failing (class, property, aspect); it never establishes that the property holds.

Usage: python c04_oracle.py [--pkgdir DIR] [--model FILE ...]   -> JSON list of mismatches
"""
import enum
import json
import os
import sys
import typing
from typing import Any, Dict, Optional, Sequence, Tuple, Union

args = sys.argv[1:]
if "--pkgdir" in args:
    sys.path.insert(0, args[args.index("--pkgdir") + 1])
models = []
if "--model" in args:
    models = args[args.index("--model") + 1:]

import attrs  # noqa: E402
from lsprotocol import types, validators  # noqa: E402

REPO = os.environ.get("VERIF_REPO", "/repo")


def load():
    paths = models or [os.path.join(REPO, "generator", "lsp.json")]
    docs = [json.load(open(p, encoding="utf-8")) for p in paths]
    d = docs[0]
    for x in docs[1:]:
        for k in ("requests", "notifications", "structures", "enumerations", "typeAliases"):
            d[k] = d.get(k, []) + x.get(k, [])
    return d


M = load()
STRUCTS = {s["name"]: s for s in M["structures"]}
ENUMS = {e["name"]: e for e in M["enumerations"]}
ALIASES = {a["name"]: a for a in M["typeAliases"]}
BASE = {"decimal": float, "boolean": bool, "integer": int, "uinteger": int, "string": str, "DocumentUri": str, "URI": str, "null": type(None)}


class Unmappable(Exception):
    pass


def py_of(t, depth=0):
    if depth > 20:
        raise Unmappable("alias cycle")
    k = t["kind"]
    if k == "base":
        if t["name"] not in BASE:
            raise Unmappable(t["name"])
        return BASE[t["name"]]
    if k == "reference":
        n = t["name"]
        if n == "LSPAny":
            return Optional[Any]
        if n == "LSPObject":
            return types.LSPObject
        if n in ENUMS:
            e = ENUMS[n]
            cls = getattr(types, n)
            if e.get("supportsCustomValues") or n == "CompletionItemKind":
                return Union[cls, str if e["type"]["name"] == "string" else int]
            return cls
        if n in STRUCTS:
            return getattr(types, n)
        if n in ALIASES:
            return py_of(ALIASES[n]["type"], depth + 1)
        raise Unmappable(n)
    if k == "array":
        return Sequence[py_of(t["element"], depth + 1)]
    if k == "map":
        return Dict[py_of(t["key"], depth + 1), py_of(t["value"], depth + 1)]
    if k == "tuple":
        return Tuple[tuple(py_of(i, depth + 1) for i in t["items"])]
    if k == "or":
        return Union[tuple(py_of(i, depth + 1) for i in t["items"])]
    if k == "stringLiteral":
        return str
    if k == "literal" and not t["value"]["properties"]:
        return Any
    raise Unmappable(k)


def null_admitting(t):
    return t["kind"] == "or" and any(i["kind"] == "base" and i["name"] == "null" for i in t["items"])


def flatten(s):
    out, seen = [], set()

    def add(props):
        for p in props:
            if p["name"] not in seen:
                seen.add(p["name"])
                out.append(p)

    def anc(st, depth=0):
        if depth > 400:
            return
        for r in (st.get("extends") or []) + (st.get("mixins") or []):
            ps = STRUCTS.get(r.get("name"))
            if ps is not None:
                yield ps
                yield from anc(ps, depth + 1)

    add(s["properties"])
    for a in anc(s):
        add(a["properties"])
    return out


def vname(v):
    if v is None:
        return "none"
    if v is validators.integer_validator:
        return "integer"
    if v is validators.uinteger_validator:
        return "uinteger"
    cn = type(v).__name__
    if cn == "_InstanceOfValidator":
        return "instance_of(%s)" % v.type.__name__
    if cn == "_InValidator":
        return "in_(%r)" % (list(v.options),)
    if cn == "_OptionalValidator":
        return "optional(%s)" % vname(v.validator)
    return repr(v)


def expected_validator(p, opt):
    t = p["type"]
    if t["kind"] == "stringLiteral":
        return "in_(%r)" % ([t["value"]],)
    v = "none"
    if t["kind"] == "base":
        v = {"integer": "integer", "uinteger": "uinteger", "string": "instance_of(str)", "DocumentUri": "instance_of(str)",
             "URI": "instance_of(str)", "boolean": "instance_of(bool)", "decimal": "instance_of(float)"}.get(t["name"], "none")
    if v != "none" and opt:
        return f"optional({v})"
    return v


def wire_names(cls):
    """wire name of each attribute as a converter sees it (structure side, unstructure side)."""
    from lsprotocol import converters
    conv = converters.get_converter()
    so = getattr(conv.get_structure_hook(cls), "overrides", {}) or {}
    uo = getattr(conv.get_unstructure_hook(cls), "overrides", {}) or {}
    out = {}
    for f in attrs.fields(cls):
        s = so.get(f.name)
        u = uo.get(f.name)
        out[f.name] = ((s.rename if s is not None and s.rename else f.name), (u.rename if u is not None and u.rename else f.name))
    return out


