"""Direct oracle for C17: every vector the testdata plugin generates for the committed model.

  python c17_oracle.py [--ops FILE]   -> JSON {evaluations, ..., mismatches}
With --ops, also writes one line per vector for the Lean strict-validity driver
(`v <kind> <method> <compact json>`; for responses the `error` member is stripped, see F1) and the
Python validator's verdicts next to it, so the two independent validators can be compared.
"""
import hashlib
import json
import logging
import os
import pathlib
import sys

REPO = pathlib.Path(os.environ.get("VERIF_REPO", "/repo"))
sys.path.insert(0, str(REPO))
sys.path.insert(0, str(REPO / "packages/python"))
sys.path.insert(0, os.path.dirname(os.path.dirname(os.path.abspath(__file__))))
import mmvalid  # noqa: E402
import valuegen  # noqa: E402
from generator import model  # noqa: E402
from generator.plugins.testdata.testdata_generator import generate  # noqa: E402

args = sys.argv[1:]
MODEL = args[args.index("--model") + 1] if "--model" in args else str(REPO / "generator/lsp.json")
DOC = json.load(open(MODEL))
META = valuegen.Meta(json.loads(json.dumps(DOC)))

ID = {"kind": "or", "items": [{"kind": "base", "name": "integer"}, {"kind": "base", "name": "string"}]}
JR = {"name": "jsonrpc", "type": {"kind": "stringLiteral", "value": "2.0"}}
RESPONSE_ERROR = {"kind": "literal", "value": {"properties": [
    {"name": "code", "type": {"kind": "base", "name": "integer"}}, {"name": "message", "type": {"kind": "base", "name": "string"}},
    {"name": "data", "type": {"kind": "reference", "name": "LSPObject"}, "optional": True}]}}


def lit(props):
    return {"kind": "literal", "value": {"properties": props}}


def suffixed(t, s):
    return t if t.endswith(s) else t + s


def classes():
    """class name -> (kind, method, strict type)"""
    out = {}
    for r in DOC["requests"]:
        tn = valuegen.Meta.class_base_name(r)
        cn = suffixed(tn, "Request")
        props = [JR, {"name": "id", "type": ID}, {"name": "method", "type": {"kind": "stringLiteral", "value": r["method"]}}]
        if r.get("params") is not None:
            props.append({"name": "params", "type": r["params"]})
        out[cn] = ("request", r["method"], lit(props))
        out[cn.replace("Request", "") + "Response"] = ("response", r["method"], lit([JR, {"name": "id", "type": ID}, {"name": "result", "type": r["result"]}]))
    for n in DOC["notifications"]:
        tn = valuegen.Meta.class_base_name(n)
        cn = suffixed(tn, "Notification")
        props = [JR, {"name": "method", "type": {"kind": "stringLiteral", "value": n["method"]}}]
        if n.get("params") is not None:
            props.append({"name": "params", "type": n["params"]})
        out[cn] = ("notification", n["method"], lit(props))
    return out


def strict(t, j):
    # empty structures / literals are extension points (see Spec/StrictValid.lean)
    return mmvalid.valid(OPEN, t, j)


class OpenMeta(valuegen.Meta):
    pass


def main():
    global OPEN
    OPEN = META
    spec = model.create_lsp_model([json.loads(json.dumps(DOC))])
    vectors = generate(spec, logging.getLogger("c17"))
    cls = classes()
    mism, evals = [], 0
    true_count = {c: 0 for c in cls}
    ops, pyv = [], []
    f1 = 0
    conv = None
    try:
        from lsprotocol import converters, types
        conv = converters.get_converter()
    except Exception:  # noqa: BLE001
        types = None

    def add(site, aspect, expected, observed, inp=None):
        if len([m for m in mism if m["site"] == site and m["aspect"] == aspect]) < 1:
            mism.append({"site": site, "aspect": aspect, "expected": str(expected)[:200], "observed": str(observed)[:300], "input": inp})

    for name, content in vectors.items():
        evals += 1
        parts = name[:-5].split("-")
        if len(parts) != 3 or not name.endswith(".json") or parts[1] not in ("True", "False"):
            add("file-name", "malformed-name", "<MessageClass>-<True|False>-<hash>.json", name)
            continue
        cn, label, h = parts[0], parts[1] == "True", parts[2]
        if hashlib.sha256(content.encode("utf-8")).hexdigest() != h:
            add(cn, "hash-is-not-the-content-hash", h, hashlib.sha256(content.encode("utf-8")).hexdigest(), name)
        if cn not in cls:
            add(cn, "unknown-message-class", "a request / response / notification class", cn, name)
            continue
        kind, method, t = cls[cn]
        j = json.loads(content)
        if kind == "response" and isinstance(j, dict) and "error" in j and "result" in j:
            # F1: the generator always adds an `error` object next to `result`
            jj = {k: v for k, v in j.items() if k != "error"}
            v = strict(t, jj) and strict(RESPONSE_ERROR, j["error"])
            vv = strict(t, jj)
            if label:
                f1 += 1
        else:
            jj = j
            v = vv = strict(t, j)
        ops.append(f"v {kind} {method} " + json.dumps(jj, ensure_ascii=False, separators=(",", ":")))
        pyv.append("true" if vv else "false")
        if v != label:
            add(f"{cn}", "label-true-for-invalid-content" if label else "label-false-for-valid-content",
                f"label == strict validity ({v})", f"label {label}", {"file": name, "content": j if len(content) < 1500 else content[:1500]})
        if label:
            true_count[cn] += 1
            if conv is not None:
                c = getattr(types, cn, None)
                try:
                    conv.structure(j, c)
                except Exception as e:  # noqa: BLE001
                    add(cn, "true-vector-rejected-by-converter", "accepted", type(e).__name__, {"file": name, "content": j if len(content) < 1500 else content[:1500]})
    for c, n in true_count.items():
        if n == 0:
            add(c, "no-true-vector", "at least one vector labelled True", 0)
    if f1:
        mism.append({"site": "response-vectors", "aspect": "result-and-error-together", "expected": "a response carries either `result` or `error`; the response class declares id, result, jsonrpc only",
                     "observed": f"{f1} response vectors labelled True carry an `error` object next to `result`", "input": None})
    if "--ops" in args:
        base = args[args.index("--ops") + 1]
        open(base, "w", encoding="utf-8").write("\n".join(ops) + "\n")
        open(base + ".py", "w").write("\n".join(pyv) + "\n")
    json.dump({"evaluations": evals, "distinct": evals, "classes": len(cls), "true_vectors": sum(true_count.values()),
               "samples": [{"file": n, "content": json.loads(c)} for n, c in list(vectors.items())[:2]], "mismatches": mism}, sys.stdout)


main()
