import json, os, sys
import jsonschema
repo = os.environ.get("VERIF_REPO", "/repo")
try:
    jsonschema.validate(json.load(open(sys.argv[1])), json.load(open(os.path.join(repo, "generator", "lsp.schema.json"))))
    print("ok")
except jsonschema.ValidationError as e:
    print("invalid: " + str(e)[:300])
