"""Direct oracle for C19 on the real code.

  histories: in fresh processes, creation histories over {fresh, user-supplied converter, user-supplied
             with detailed_validation off}; after every creation, every converter created so far is run on
             a fixed battery and must answer like the reference (a single fresh converter).
  schedules: 2-thread preemption schedules (thread A paused at its k-th line inside the once-only
             section, B runs until done or blocked, A resumes) and barrier-released stress runs, one
             fresh process each (tools/corr/conc_impl.py).
Usage: python c19_oracle.py [--seed N] [--thorough]   -> JSON
"""
import itertools
import json
import os
import random
import subprocess
import sys
from concurrent.futures import ThreadPoolExecutor

HERE = os.path.dirname(os.path.abspath(__file__))
TOOLS = os.path.dirname(HERE)
args = sys.argv[1:]
SEED = int(args[args.index("--seed") + 1]) if "--seed" in args else 0
THOROUGH = "--thorough" in args

HIST_CHILD = r'''
import json, sys
sys.path.insert(0, %(tools)r)
import cattrs
from lsprotocol import converters, types
import convops, valuegen
hist = json.loads(sys.argv[1])
meta = valuegen.Meta.load([%(model)r])
S = convops.Streams(meta, %(seed)d, False)
battery = []
for name, tag, j in S.valid_stream():
    if tag in ("min", "max"):
        battery.append((name, j))
battery = battery[::6]
mal = [(n, j) for n, e, p, j in S.malformed_stream()][::25]
import typing
def rt(name):
    t = getattr(types, name)
    return t if isinstance(t, type) else typing._eval_type(t, dict(types.ALL_TYPES_MAP), {})
def run(conv):
    out = []
    for name, j in battery + mal:
        try:
            t = rt(name)
            v = conv.structure(j, t)
            out.append(repr(v) + "|" + json.dumps(conv.unstructure(v, t), sort_keys=True, default=str))
        except Exception as e:
            out.append("ERR")
    return out
def make(kind):
    if kind == "fresh":
        return converters.get_converter()
    if kind == "user":
        return converters.get_converter(cattrs.Converter())
    if kind == "user-nodetail":
        return converters.get_converter(cattrs.Converter(detailed_validation=False))
    if kind == "user-reused":
        c = cattrs.Converter()
        converters.get_converter(c)
        return converters.get_converter(c)
    raise ValueError(kind)
convs = []
ref = None
problems = []
for i, kind in enumerate(hist):
    try:
        convs.append(make(kind))
    except Exception as e:
        problems.append({"step": i, "kind": kind, "what": "creation raised " + type(e).__name__ + ": " + str(e)[:100]})
        continue
    outs = [run(c) for c in convs]
    if ref is None:
        ref = outs[0]
    for ci, o in enumerate(outs):
        if o != ref:
            k = next(x for x in range(len(o)) if o[x] != ref[x])
            problems.append({"step": i, "kind": kind, "converter": ci, "what": "battery answer differs from the reference", "case": (battery + mal)[k][0], "got": o[k][:200], "ref": ref[k][:200]})
print(json.dumps({"n": len(battery) + len(mal), "problems": problems}))
'''


def main():
    repo = os.environ.get("VERIF_REPO", "/repo")
    env = dict(os.environ)
    mism, evals, samples = [], 0, []
    rnd = random.Random(SEED)
    kinds = ["fresh", "user", "user-nodetail", "user-reused"]
    hists = [list(h) for n in (1, 2) for h in itertools.product(kinds, repeat=n)]
    hists += [[rnd.choice(kinds) for _ in range(rnd.choice([3, 4, 6]))] for _ in range(12 if THOROUGH else 4)]
    hists.append(["fresh"] * (100 if THOROUGH else 25))
    child = HIST_CHILD % {"tools": TOOLS, "model": os.path.join(repo, "generator", "lsp.json"), "seed": SEED}

    def run_hist(h):
        p = subprocess.run([sys.executable, "-B", "-c", child, json.dumps(h)], capture_output=True, text=True, env=env, timeout=900)
        if p.returncode != 0:
            return h, None, p.stderr[-300:]
        return h, json.loads(p.stdout), ""

    with ThreadPoolExecutor(max_workers=8) as ex:
        for h, out, err in ex.map(run_hist, hists):
            evals += 1
            if out is None:
                mism.append({"site": "history", "aspect": "child-crashed", "expected": "runs", "observed": err, "input": h})
                continue
            for pr in out["problems"][:2]:
                mism.append({"site": "history|" + pr["kind"], "aspect": pr["what"].split(" ")[0] + "-" + pr["what"].split(" ")[1],
                             "expected": "every converter answers like a single fresh one", "observed": json.dumps(pr)[:300], "input": h})
    samples.append({"histories": hists[:6]})
    # schedules
    impl = os.path.join(TOOLS, "corr", "conc_impl.py")
    p = subprocess.run([sys.executable, "-B", impl, "count"], capture_output=True, text=True, env=env, timeout=300)
    total = json.loads(p.stdout)["events"] if p.returncode == 0 else 3000
    ks = sorted(set(list(range(1, 16)) + [total // 4, total // 2, total - 3, total - 1, total, total + 2]
                    + [rnd.randrange(1, total) for _ in range(40 if THOROUGH else 10)]))

    def run_k(k):
        q = subprocess.run([sys.executable, "-B", impl, "preempt", str(k)], capture_output=True, text=True, env=env, timeout=300)
        return k, (json.loads(q.stdout) if q.returncode == 0 and q.stdout.strip() else {"a": "crash: " + q.stderr[-200:], "b": "", "flag": False, "same": False})

    with ThreadPoolExecutor(max_workers=12) as ex:
        for k, r in ex.map(run_k, ks):
            evals += 1
            if r["a"] != "ok" or r["b"] != "ok" or not r["flag"] or not r["same"]:
                mism.append({"site": "schedule|2-thread-preemption", "aspect": "first-use-race",
                             "expected": "both threads get a converter, same answers", "observed": json.dumps(r)[:300],
                             "input": {"schedule": f"A paused after line event {k}; B runs to completion or block; A resumes", "k": k}})
                break
    samples.append({"preemption_points": ks[:10], "line_events_in_section": total})

    def run_stress(i):
        q = subprocess.run([sys.executable, "-B", impl, "stress", "8", str(i)], capture_output=True, text=True, env=env, timeout=300)
        return i, (json.loads(q.stdout) if q.returncode == 0 and q.stdout.strip() else {"a": "crash", "same": False, "flag": False})

    with ThreadPoolExecutor(max_workers=8) as ex:
        for i, r in ex.map(run_stress, range(24 if THOROUGH else 8)):
            evals += 1
            if r["a"] != "ok" or not r["same"]:
                mism.append({"site": "schedule|stress", "aspect": "first-use-race", "expected": "all threads ok", "observed": json.dumps(r)[:300], "input": {"threads": 8}})
                break
    json.dump({"evaluations": evals, "distinct": evals, "samples": samples, "mismatches": mism}, sys.stdout)


main()
