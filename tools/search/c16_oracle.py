"""Direct oracle for C16: real runs of the four plugins under different hash seeds and directory
histories; the files each plugin owns are compared byte for byte.

Histories per plugin: fresh directory; re-run in the same directory (other seed); run after a
different (evolved) model; run after hand-placed stale owned files; a generation that follows a
generation of a different model in the SAME interpreter (both orders) against fresh-process runs.  The testdata plugin writes
~340 MB for the full model, so its disk histories use a reduced model (closure of a few methods);
its full output is compared in-process (name -> content digest) across seeds.
Usage: python c16_oracle.py [--seed N] [--thorough]  -> JSON
"""
import copy
import hashlib
import json
import os
import pathlib
import shutil
import subprocess
import sys
import tempfile
from concurrent.futures import ThreadPoolExecutor

REPO = pathlib.Path(os.environ.get("VERIF_REPO", "/repo"))
args = sys.argv[1:]
SEED = int(args[args.index("--seed") + 1]) if "--seed" in args else 0
THOROUGH = "--thorough" in args
DOC = json.load(open(REPO / "generator/lsp.json"))

OWNED = {
    "python": lambda rel: rel == "lsprotocol/types.py",
    "rust": lambda rel: rel == "lsprotocol/src/lib.rs",
    "dotnet": lambda rel: rel.startswith("lsprotocol/") and rel.endswith(".cs") and rel.count("/") == 1,
    "testdata": lambda rel: rel.endswith(".json") and "/" not in rel,
}
STALE = {
    "python": [("lsprotocol/types.py", "# stale garbage\n")],
    "rust": [("lsprotocol/src/lib.rs", "// stale garbage\n")],
    "dotnet": [("lsprotocol/StaleStructure.cs", "class Stale {}"), ("lsprotocol/Position.cs", "// stale")],
    "testdata": [("StaleRequest-True-123.json", "{}"), ("ExitNotification-False-999.json", "{}")],
}


def refs(t, acc):
    k = t.get("kind")
    if k == "reference":
        acc.add(t["name"])
    for key in ("element", "key", "value"):
        if isinstance(t.get(key), dict):
            refs(t[key], acc)
    for i in t.get("items", []) or []:
        refs(i, acc)
    if k == "literal":
        for p in t["value"]["properties"]:
            refs(p["type"], acc)


def reduce_model(doc, methods):
    """closure of the given methods: a small schema-valid model"""
    d = {"metaData": doc["metaData"], "requests": [r for r in doc["requests"] if r["method"] in methods],
         "notifications": [n for n in doc["notifications"] if n["method"] in methods], "structures": [], "enumerations": [], "typeAliases": []}
    need = {"LSPAny", "LSPObject", "LSPArray"}
    for r in d["requests"] + d["notifications"]:
        for k in ("params", "result", "partialResult", "errorData", "registrationOptions"):
            if isinstance(r.get(k), dict):
                refs(r[k], need)
    structs = {s["name"]: s for s in doc["structures"]}
    enums = {e["name"]: e for e in doc["enumerations"]}
    aliases = {a["name"]: a for a in doc["typeAliases"]}
    done = set()
    while need - done:
        n = (need - done).pop()
        done.add(n)
        if n in structs:
            s = structs[n]
            for p in s["properties"]:
                refs(p["type"], need)
            for x in (s.get("extends") or []) + (s.get("mixins") or []):
                refs(x, need)
        elif n in aliases:
            refs(aliases[n]["type"], need)
    d["structures"] = [s for s in doc["structures"] if s["name"] in done]
    d["enumerations"] = [e for e in doc["enumerations"] if e["name"] in done]
    d["typeAliases"] = [a for a in doc["typeAliases"] if a["name"] in done]
    return d


def digest(plugin, root):
    h = {}
    for f in sorted(root.rglob("*")):
        if f.is_file():
            rel = str(f.relative_to(root))
            if OWNED[plugin](rel):
                h[rel] = hashlib.sha256(f.read_bytes()).hexdigest()
    return h


def run(plugin, model_file, out, seed):
    env = dict(os.environ)
    env["PYTHONHASHSEED"] = str(seed)
    env["PYTHONDONTWRITEBYTECODE"] = "1"
    cmd = [sys.executable, "-B", "-m", "generator", "--plugin", plugin, "--output-dir", str(out), "--test-dir", str(out) + "-tests"]
    if model_file:
        cmd += ["--model", str(model_file)]
    p = subprocess.run(cmd, cwd=str(REPO), capture_output=True, text=True, env=env)
    return p.returncode, (p.stdout + p.stderr)[-600:]


SAMEPROC = r'''
import sys
sys.path.insert(0, %(repo)r)
from generator.__main__ import main
for model, out in %(runs)r:
    argv = ["--plugin", %(plugin)r, "--output-dir", out, "--test-dir", out + "-tests"]
    if model:
        argv += ["--model", model]
    main(argv)
'''


def run_same_process(plugin, runs, seed):
    """several generations in ONE interpreter, in order: [(model file or None, output dir), ...]"""
    env = dict(os.environ)
    env["PYTHONHASHSEED"] = str(seed)
    env["PYTHONDONTWRITEBYTECODE"] = "1"
    p = subprocess.run([sys.executable, "-B", "-c", SAMEPROC % {"repo": str(REPO), "plugin": plugin, "runs": [(str(m) if m else None, str(o)) for m, o in runs]}],
                       cwd=str(REPO), capture_output=True, text=True, env=env, timeout=1800)
    return p.returncode, (p.stdout + p.stderr)[-600:]


def bases_changed(doc):
    """the model with one more optional property on every structure that another structure extends or mixes in:
    what a generation 'remembers' about a base from an earlier model in the same process shows in every derived class"""
    d = copy.deepcopy(doc)
    targets = set()
    for s in d["structures"]:
        for x in (s.get("extends") or []) + (s.get("mixins") or []):
            if x.get("kind") == "reference":
                targets.add(x["name"])
    for s in d["structures"]:
        if s["name"] in targets and not any(p["name"] == "evolvedBaseExtra" for p in s["properties"]):
            s["properties"].append({"name": "evolvedBaseExtra", "type": {"kind": "base", "name": "string"}, "optional": True})
    # ... and every enumeration's supportsCustomValues flag flipped: what a generation remembers about an enumeration (by name)
    # from an earlier model shows at every property that references it.  (This model is only ever generated, never imported.)
    for e in d["enumerations"]:
        if e.get("supportsCustomValues"):
            e.pop("supportsCustomValues")
        else:
            e["supportsCustomValues"] = True
    return d


INPROC = r'''
import hashlib, json, logging, sys
sys.path.insert(0, %(repo)r)
from generator import model
from generator.plugins.testdata.testdata_generator import generate
spec = model.create_lsp_model([json.load(open(%(model)r))])
code = generate(spec, logging.getLogger("x"))
h = hashlib.sha256()
for k in sorted(code):
    h.update(k.encode()); h.update(b"\0"); h.update(code[k].encode()); h.update(b"\0")
print(json.dumps({"files": len(code), "digest": h.hexdigest()}))
'''


def main():
    mism, evals, samples = [], 0, []
    tmp = pathlib.Path(tempfile.mkdtemp(prefix="lspverif-c16-"))

    def add(site, aspect, expected, observed, inp=None):
        mism.append({"site": site, "aspect": aspect, "expected": str(expected)[:300], "observed": str(observed)[:300], "input": inp})

    try:
        small = reduce_model(DOC, {"textDocument/hover", "textDocument/didOpen", "workspace/symbol", "$/progress", "shutdown", "exit"})
        evolved = copy.deepcopy(small)
        evolved["structures"] = [s for s in evolved["structures"] if s["name"] != "MarkedStringWithLanguage"] + [
            {"name": "ExtraStructureOfEvolvedModel", "properties": [{"name": "x", "type": {"kind": "base", "name": "string"}}]}]
        evolved["notifications"] = evolved["notifications"] + [{"method": "evolved/extra", "typeName": "EvolvedExtraNotification", "messageDirection": "both",
                                                                "params": {"kind": "reference", "name": "ExtraStructureOfEvolvedModel"}}]
        (tmp / "small.json").write_text(json.dumps(small))
        (tmp / "evolved.json").write_text(json.dumps(evolved))
        (tmp / "bases.json").write_text(json.dumps(bases_changed(DOC)))
        (tmp / "bases-small.json").write_text(json.dumps(bases_changed(small)))
        seeds = [SEED, SEED + 1, SEED + 2, SEED + 3, SEED + 10] + ([SEED + 7, SEED + 13, 12345, 99, 4242, 31337] if THOROUGH else [])
        jobs = []
        for plugin in ("python", "rust", "dotnet", "testdata"):
            mf = tmp / "small.json" if plugin == "testdata" else None   # full model for the three code plugins
            jobs.append((plugin, mf))

        def one_plugin(job):
            plugin, mf = job
            res = []
            ref = None
            n = 0
            for si, seed in enumerate(seeds):
                # H1: fresh directory
                d = tmp / f"{plugin}-fresh-{seed}"
                rc, log = run(plugin, mf, d, seed)
                n += 1
                if rc != 0:
                    res.append((f"{plugin}|fresh", "plugin-fails", "exit 0", log, {"seed": seed}))
                    continue
                dg = digest(plugin, d)
                if ref is None:
                    ref = dg
                elif dg != ref:
                    diff = sorted(set(dg.items()) ^ set(ref.items()))[:3]
                    res.append((f"{plugin}|hash-seed", "output-differs-between-hash-seeds", "byte-identical", diff, {"seeds": [seeds[0], seed]}))
                if si == 0:
                    # H2: re-run in the same directory under another seed
                    rc, log = run(plugin, mf, d, seed + 101)
                    n += 1
                    if digest(plugin, d) != ref:
                        res.append((f"{plugin}|rerun", "rerun-changes-output", "byte-identical", "differs", {"seed": seed + 101}))
                    # H3: a different model first, then the model
                    d3 = tmp / f"{plugin}-after-other"
                    run(plugin, tmp / "evolved.json", d3, seed)
                    rc, log = run(plugin, mf, d3, seed)
                    n += 2
                    dg3 = digest(plugin, d3)
                    if dg3 != ref:
                        extra = sorted(set(dg3) - set(ref))[:3]
                        res.append((f"{plugin}|after-other-model", "files-of-an-earlier-model-survive" if extra else "output-differs-after-other-model",
                                    "same owned files as a fresh run", extra or "content differs", {"first": "evolved model", "then": "model"}))
                    shutil.rmtree(d3, ignore_errors=True)
                    # H4: hand-placed stale owned files
                    d4 = tmp / f"{plugin}-stale"
                    for rel, content in STALE[plugin]:
                        (d4 / rel).parent.mkdir(parents=True, exist_ok=True)
                        (d4 / rel).write_text(content)
                    rc, log = run(plugin, mf, d4, seed)
                    n += 1
                    dg4 = digest(plugin, d4)
                    if dg4 != ref:
                        extra = sorted(set(dg4) - set(ref))[:3]
                        res.append((f"{plugin}|stale-files", "stale-owned-files-survive" if extra else "output-differs-with-stale-files",
                                    "same owned files as a fresh run", extra or "content differs", {"stale": [r for r, _ in STALE[plugin]]}))
                    shutil.rmtree(d4, ignore_errors=True)
                    # H5: earlier generations in the SAME interpreter (programmatic use of generator.__main__.main): a different model first
                    # (every base / mixin structure changed), then the model; and the other way round, against fresh-process runs
                    other = tmp / ("bases-small.json" if plugin == "testdata" else "bases.json")
                    d5a, d5b = tmp / f"{plugin}-same-a", tmp / f"{plugin}-same-b"
                    rc, log = run_same_process(plugin, [(other, d5a), (mf, d5b)], seed)
                    n += 2
                    if rc != 0:
                        res.append((f"{plugin}|same-process", "plugin-fails", "exit 0", log, {"seed": seed}))
                    elif digest(plugin, d5b) != ref:
                        dg5 = digest(plugin, d5b)
                        diff = sorted(k for k in set(dg5) | set(ref) if dg5.get(k) != ref.get(k))[:4]
                        res.append((f"{plugin}|same-process", "output-depends-on-an-earlier-generation-in-the-same-process", "same owned files as a fresh-process run",
                                    {"files_differing": diff}, {"same interpreter": ["model with every base/mixin structure given one more optional property and every enumeration's supportsCustomValues flipped", "the model"]}))
                    shutil.rmtree(d5a, ignore_errors=True); shutil.rmtree(d5b, ignore_errors=True)
                    d6 = tmp / f"{plugin}-other-fresh"
                    rc6, log6 = run(plugin, other, d6, seed)
                    rc, log = run_same_process(plugin, [(mf, d5a), (other, d5b)], seed)
                    n += 3
                    if rc != 0 or rc6 != 0:
                        res.append((f"{plugin}|same-process", "plugin-fails", "exit 0", log + log6, {"seed": seed}))
                    elif digest(plugin, d5b) != digest(plugin, d6):
                        a, b = digest(plugin, d5b), digest(plugin, d6)
                        diff = sorted(k for k in set(a) | set(b) if a.get(k) != b.get(k))[:4]
                        res.append((f"{plugin}|same-process", "output-depends-on-an-earlier-generation-in-the-same-process", "same owned files as a fresh-process run",
                                    {"files_differing": diff}, {"same interpreter": ["the model", "model with every base/mixin structure given one more optional property and every enumeration's supportsCustomValues flipped"]}))
                    for x in (d5a, d5b, d6):
                        shutil.rmtree(x, ignore_errors=True)
                        shutil.rmtree(str(x) + "-tests", ignore_errors=True)
                shutil.rmtree(d, ignore_errors=True)
                shutil.rmtree(str(d) + "-tests", ignore_errors=True)
            return plugin, n, len(ref or {}), res

        with ThreadPoolExecutor(max_workers=4) as ex:
            for plugin, n, nfiles, res in ex.map(one_plugin, jobs):
                evals += n
                samples.append({"plugin": plugin, "owned_files": nfiles, "runs": n, "model": "reduced" if plugin == "testdata" else "committed lsp.json"})
                for r in res:
                    add(*r)
        # a feature-rich evolved model (every edit kind of tools/evolve.py applied to the committed model: anonymous literals on the
        # fallback naming paths, and-types, keyword names, messages without typeName, ...) under a sweep of hash seeds: a set or dict-of-set
        # iteration that the committed model never reaches still has to give the same bytes
        import random
        import evolve
        rich = copy.deepcopy(DOC)
        for e in evolve.EDITS:
            try:
                e(rich, random.Random(SEED))
            except (StopIteration, IndexError):
                pass
        (tmp / "rich.json").write_text(json.dumps(rich))
        sweep = list(range(20)) if THOROUGH else list(range(8))

        def one_rich(job):
            plugin, seed = job
            d = tmp / f"rich-{plugin}-{seed}"
            rc, log = run(plugin, tmp / "rich.json", d, seed)
            dg = digest(plugin, d) if rc == 0 else None
            shutil.rmtree(d, ignore_errors=True)
            shutil.rmtree(str(d) + "-tests", ignore_errors=True)
            return plugin, seed, rc, log, dg

        rich_ref = {}
        with ThreadPoolExecutor(max_workers=12) as ex:
            for plugin, seed, rc, log, dg in ex.map(one_rich, [(pl, sd) for pl in ("python", "rust", "dotnet") for sd in sweep]):
                evals += 1
                if rc != 0:
                    add(f"{plugin}|evolved-model", "plugin-fails", "exit 0", log[-300:], {"seed": seed, "model": "all tools/evolve.py edits applied to generator/lsp.json"})
                elif plugin not in rich_ref:
                    rich_ref[plugin] = (seed, dg)
                elif dg != rich_ref[plugin][1]:
                    diff = sorted(set(dg.items()) ^ set(rich_ref[plugin][1].items()))[:3]
                    add(f"{plugin}|hash-seed|evolved-model", "output-differs-between-hash-seeds", "byte-identical", diff,
                        {"seeds": [rich_ref[plugin][0], seed], "model": "all tools/evolve.py edits (seed %d) applied to generator/lsp.json" % SEED})
        samples.append({"plugin": "python, rust, dotnet on the evolved feature-rich model", "hash_seeds": sweep})
        # testdata, full model, in process, across seeds
        full = REPO / "generator/lsp.json"
        outs = []
        for seed in seeds[: (3 if THOROUGH else 2)]:
            env = dict(os.environ)
            env["PYTHONHASHSEED"] = str(seed)
            p = subprocess.run([sys.executable, "-B", "-c", INPROC % {"repo": str(REPO), "model": str(full)}], capture_output=True, text=True, env=env, timeout=900)
            evals += 1
            if p.returncode != 0:
                add("testdata|full-model", "plugin-fails", "generates", p.stderr[-300:], {"seed": seed})
            else:
                outs.append(json.loads(p.stdout))
        if len({o["digest"] for o in outs}) > 1:
            add("testdata|hash-seed", "output-differs-between-hash-seeds", "identical name->content map", outs, {"seeds": seeds[:3]})
        if outs:
            samples.append({"plugin": "testdata (full model, in process)", "files": outs[0]["files"]})
    finally:
        shutil.rmtree(tmp, ignore_errors=True)
    json.dump({"evaluations": evals, "distinct": evals, "samples": samples, "mismatches": mism}, sys.stdout)


main()
