"""Direct oracles for the converter properties on the real package:
   C01 round trip, C02 constructor path, C03 well-typedness, C10 null-vs-omitted, C11 rejection,
   C13 enums, C14 union alternatives, C15 unknown properties.
Each is the property stated in plain Python over lsp.json and the live converter, independent of
the Lean model; trusted only to *exhibit* failures (every reported case carries its input).

Usage: python convcheck.py <PROP> [--seed N] [--thorough] [--pkgdir DIR] [--one ROOT JSON]
Output: JSON {evaluations, distinct, samples, mismatches:[{site, aspect, expected, observed, root, input}]}
"""
import copy
import enum
import json
import os
import sys
import typing

args = sys.argv[1:]
sys.path.insert(0, os.path.dirname(os.path.abspath(__file__)))
sys.path.insert(0, os.path.dirname(os.path.dirname(os.path.abspath(__file__))))
import oracle_common  # noqa: E402  (handles --pkgdir)
from oracle_common import py_of, Unmappable  # noqa: E402
import attrs  # noqa: E402
from lsprotocol import converters, types  # noqa: E402
import convops  # noqa: E402
import mmvalid  # noqa: E402
import valuegen  # noqa: E402
from valuegen import type_sig  # noqa: E402

REPO = os.environ.get("VERIF_REPO", "/repo")
MODEL_FILES = args[args.index("--model") + 1:] if "--model" in args else [os.path.join(REPO, "generator", "lsp.json")]
META = valuegen.Meta.load(MODEL_FILES)
CONV = converters.get_converter()


def jnorm(o):
    return json.loads(json.dumps(o))


def root_pytype(name):
    t = getattr(types, name)
    if isinstance(t, type):
        return t
    return typing._eval_type(t, dict(types.ALL_TYPES_MAP), {})


def alt_name(t):
    return type_sig(t)


def wire_map(cls):
    so = getattr(CONV.get_structure_hook(cls), "overrides", {}) or {}
    out = {}
    for f in attrs.fields(cls):
        ov = so.get(f.name)
        out[(ov.rename if ov is not None and ov.rename else f.name)] = f
    return out


def props_of(t):
    """(props, python class or None) when t denotes an object type."""
    k = t["kind"]
    if k == "reference" and t["name"] in META.structs and t["name"] != "LSPObject":
        return META.flatten(t["name"]), getattr(types, t["name"], None)
    if k == "literal":
        return t["value"]["properties"], None
    if k == "and":
        props = []
        for i in t["items"]:
            if i["kind"] == "reference" and i["name"] in META.structs:
                for p in META.flatten(i["name"]):
                    if p["name"] not in [q["name"] for q in props]:
                        props.append(p)
        return props, None
    return None, None


def expand(t):
    while t["kind"] == "reference" and t["name"] in META.aliases and t["name"] not in ("LSPAny", "LSPObject", "LSPArray"):
        t = META.aliases[t["name"]]["type"]
    return t


# ------------------------------------------------------------------ C01: comparison up to the null rule
def same_scalar(a, b):
    if isinstance(a, bool) or isinstance(b, bool):
        return isinstance(a, bool) and isinstance(b, bool) and a == b
    if isinstance(a, (int, float)) and isinstance(b, (int, float)):
        return a == b
    return type(a) is type(b) and a == b


def cmp_null_rule(t, j, o, path="$"):
    """None if o equals j up to the documented null rule for type t, else a description."""
    t = expand(t)
    k = t["kind"]
    if k == "or":
        alts = [a for a in t["items"] if mmvalid.valid(META, a, j)]
        res = [cmp_null_rule(a, j, o, path) for a in alts]
        if any(r is None for r in res):
            return None
        return res[0] if res else f"{path}: input valid for no alternative"
    props, _ = props_of(t)
    if props is not None:
        if not isinstance(o, dict) or not isinstance(j, dict):
            return f"{path}: expected an object, got {type(o).__name__}"
        names = {p["name"]: p for p in props}
        for kk in o:
            if kk not in names:
                return f"{path}.{kk}: undeclared key written"
        for p in props:
            n = p["name"]
            if n in j:
                if n not in o:
                    if j[n] is None and p.get("optional") and not valuegen.Meta.null_admitting(p["type"]):
                        continue  # explicit null of an optional property reads as unset (None) and is left out (C10)
                    return f"{path}.{n}: property disappeared"
                r = cmp_null_rule(p["type"], j[n], o[n], f"{path}.{n}")
                if r:
                    return r
            else:
                na = valuegen.Meta.null_admitting(p["type"])
                if na and (n not in o or o[n] is not None):
                    return f"{path}.{n}: null-admitting property not written as null when unset"
                if not na and n in o:
                    return f"{path}.{n}: unset optional property written as {o[n]!r}"
        return None
    if k == "array":
        if not isinstance(o, list) or len(o) != len(j):
            return f"{path}: array changed shape"
        for i, (a, b) in enumerate(zip(j, o)):
            r = cmp_null_rule(t["element"], a, b, f"{path}[{i}]")
            if r:
                return r
        return None
    if k == "tuple":
        if not isinstance(o, list) or len(o) != len(j):
            return f"{path}: tuple changed shape"
        for i, (tt, a, b) in enumerate(zip(t["items"], j, o)):
            r = cmp_null_rule(tt, a, b, f"{path}[{i}]")
            if r:
                return r
        return None
    if k == "map":
        if not isinstance(o, dict) or set(o) != set(j):
            return f"{path}: map keys changed"
        for kk in j:
            r = cmp_null_rule(t["value"], j[kk], o[kk], f"{path}[{kk!r}]")
            if r:
                return r
        return None
    # scalars, enums, literals, LSPAny payloads: exact
    if isinstance(j, (dict, list)):
        return None if j == o else f"{path}: payload changed"
    return None if same_scalar(j, o) else f"{path}: value changed from {j!r} to {o!r}"


def rt(t, j, pt):
    """(ok, kind, detail, v) for structure + unstructure of j as python type pt."""
    try:
        v = CONV.structure(j, pt)
    except Exception as e:  # noqa: BLE001
        return (False, "structure-raises", type(e).__name__, None)
    try:
        o = jnorm(CONV.unstructure(v, pt))
    except Exception as e:  # noqa: BLE001
        return (False, "unstructure-raises", type(e).__name__, v)
    r = cmp_null_rule(t, j, o)
    if r:
        return (False, "lossy", r, v)
    return (True, "", "", v)


def diagnose(t, j, pt, depth=0):
    """Site key of the innermost node at which round-tripping j (valid for t) fails; None if fine."""
    ok, kind, detail, v = rt(t, j, pt)
    if ok:
        return None
    t = expand(t)
    k = t["kind"]
    if depth < 30:
        props, cls = props_of(t)
        if props is not None and cls is None and isinstance(pt, type) and attrs.has(pt):
            cls = pt
        if props is not None and cls is not None and isinstance(j, dict):
            wm = wire_map(cls)
            for p in props:
                if p["name"] in j and p["name"] in wm:
                    r = diagnose(p["type"], j[p["name"]], wm[p["name"]].type, depth + 1)
                    if r:
                        return r
            return (f"struct {t.get('name', cls.__name__)}", kind, detail)
        if k == "array" and isinstance(j, list):
            try:
                et = py_of(t["element"])
                for x in j:
                    r = diagnose(t["element"], x, et, depth + 1)
                    if r:
                        return r
            except Unmappable:
                pass
        if k == "or":
            valid = [a for a in t["items"] if mmvalid.valid(META, a, j)]
            for a in valid:
                try:
                    r = diagnose(a, j, py_of(a), depth + 1)
                except Unmappable:
                    r = None
                if r and not r[0].startswith("or("):
                    # the alternative fails on its own: blame inside it
                    if expand(a)["kind"] != "or":
                        return r
            got = type(v).__name__ if v is not None else "-"
            if isinstance(v, list) and v:
                got = type(v[0]).__name__ + "[]"
            return (f"{type_sig(t)}|valid:{'+'.join(alt_name(a) for a in valid)}|got:{got}", kind, detail)
    return (type_sig(t), kind, detail)


# ------------------------------------------------------------------ C03: well-typedness
def typed(t, j, v, path="$"):
    """None if v is a well-typed reading of j at type t, else a description."""
    t = expand(t)
    k = t["kind"]
    if k == "or":
        alts = [a for a in t["items"] if mmvalid.valid(META, a, j)]
        res = [typed(a, j, v, path) for a in alts]
        if any(r is None for r in res):
            return None
        return f"{path}: {type(v).__name__} is not an instance of an alternative the input is valid for ({'+'.join(alt_name(a) for a in alts)}): {res[0] if res else ''}"
    if k == "base":
        n = t["name"]
        if n == "null":
            return None if v is None else f"{path}: expected None"
        exp = {"string": str, "DocumentUri": str, "URI": str, "RegExp": str, "integer": int, "uinteger": int, "decimal": float, "boolean": bool}[n]
        if exp is int and isinstance(v, bool):
            return f"{path}: bool where int expected"
        return None if isinstance(v, exp) else f"{path}: {type(v).__name__} where {exp.__name__} expected"
    if k == "stringLiteral":
        return None if v == t["value"] and isinstance(v, str) else f"{path}: literal"
    if k == "reference":
        n = t["name"]
        if n in ("LSPAny", "LSPObject", "LSPArray"):
            return None
        if n in META.enums:
            e = META.enums[n]
            cls = getattr(types, n)
            if isinstance(v, cls):
                return None
            if isinstance(v, enum.Enum):
                return f"{path}: member of another enum"
            if META.enum_custom(e):
                return None if isinstance(v, (str if e["type"]["name"] == "string" else int)) and not isinstance(v, bool) else f"{path}: custom enum value of wrong base type"
            return None if any(v == x["value"] and type(v) is type(x["value"]) for x in e["values"]) else f"{path}: closed enum position holds {v!r}"
    props, cls = props_of(t)
    if props is not None and not props and cls is None:
        return None  # the empty literal `{}` maps to Any: uninterpreted JSON is its value
    if props is not None:
        if cls is None:
            if not attrs.has(type(v)):
                return f"{path}: raw {type(v).__name__} where a protocol object is expected"
            cls = type(v)
        if not isinstance(v, cls):
            return f"{path}: {type(v).__name__} where {cls.__name__} expected"
        wm = wire_map(cls)
        for p in props:
            f = wm.get(p["name"])
            if f is None:
                return f"{path}.{p['name']}: class has no such attribute"
            val = getattr(v, f.name)
            if p["name"] in j:
                r = typed(p["type"], j[p["name"]], val, f"{path}.{p['name']}")
                if r:
                    return r
            else:
                if val is not None and not (p["type"]["kind"] == "stringLiteral" and val == p["type"]["value"]):
                    return f"{path}.{p['name']}: absent property reads {val!r}"
        return None
    if k == "array":
        if not isinstance(v, (list, tuple)) or len(v) != len(j):
            return f"{path}: sequence expected"
        for i, (a, b) in enumerate(zip(j, v)):
            r = typed(t["element"], a, b, f"{path}[{i}]")
            if r:
                return r
        return None
    if k == "tuple":
        if not isinstance(v, tuple) or len(v) != len(j):
            return f"{path}: tuple-typed value is a {type(v).__name__}"
        for i, (tt, a, b) in enumerate(zip(t["items"], j, v)):
            r = typed(tt, a, b, f"{path}[{i}]")
            if r:
                return r
        return None
    if k == "map":
        if not isinstance(v, dict) or len(v) != len(j):
            return f"{path}: dict expected"
        for kk in j:
            if kk not in v:
                return f"{path}: key {kk!r} lost"
            r = typed(t["value"], j[kk], v[kk], f"{path}[{kk!r}]")
            if r:
                return r
        return None
    return None


# ------------------------------------------------------------------ runners
class Out:
    def __init__(self):
        self.mism, self.evals, self.seen, self.samples = [], 0, set(), []

    def add(self, site, aspect, expected, observed, root, inp):
        self.mism.append({"site": site, "aspect": aspect, "expected": str(expected)[:300], "observed": str(observed)[:300],
                          "root": root, "input": inp})

    def count(self, key):
        self.evals += 1
        self.seen.add(key)

    def dump(self):
        # one representative per (site, aspect)
        uniq = {}
        for m in self.mism:
            uniq.setdefault((m["site"], m["aspect"]), m)
        json.dump({"evaluations": self.evals, "distinct": len(self.seen), "samples": self.samples[:4],
                   "mismatches": list(uniq.values()), "total_failing_inputs": len(self.mism)}, sys.stdout)


def run_c01_c03_c14(prop, S, out):
    for name, tag, j in S.valid_stream():
        t = S.root_type[name]
        out.count(name + convops.dumps(j))
        if len(out.samples) < 4 and tag == "max":
            out.samples.append({"root": name, "json": j})
        try:
            pt = root_pytype(name)
        except Exception as e:  # noqa: BLE001
            out.add(f"root {name}", "type-missing", "present", repr(e), name, j)
            continue
        if prop == "C01":
            d = diagnose(t, j, pt)
            if d:
                out.add(d[0], d[1], "value round-trips up to the null rule", d[2], name, j)
        else:
            try:
                v = CONV.structure(j, pt)
            except Exception as e:  # noqa: BLE001
                if prop == "C14":
                    d = diagnose(t, j, pt)
                    out.add(d[0] if d else f"root {name}", "structure-raises", "structured into a valid alternative", type(e).__name__, name, j)
                continue
            r = typed(t, j, v)
            if r:
                if prop == "C03":
                    out.add(site_of(t, j, v, r), "ill-typed", "well-typed instance", r, name, j)
                elif prop == "C14" and "not an instance of an alternative" in r:
                    out.add(site_of(t, j, v, r), "wrong-alternative", "instance of an alternative the value is valid for", r, name, j)


def site_of(t, j, v, r):
    d = None
    try:
        d = diagnose_typed(t, j, v)
    except Exception:  # noqa: BLE001
        pass
    return d or r.split(":")[0]


def diagnose_typed(t, j, v, depth=0):
    """innermost union / struct node at which `typed` fails"""
    if typed(t, j, v) is None:
        return None
    t = expand(t)
    props, cls = props_of(t)
    if props is not None and attrs.has(type(v)) and isinstance(j, dict) and depth < 30:
        wm = wire_map(type(v))
        for p in props:
            if p["name"] in j and p["name"] in wm:
                r = diagnose_typed(p["type"], j[p["name"]], getattr(v, wm[p["name"]].name), depth + 1)
                if r:
                    return r
        return f"struct {t.get('name', type_sig(t))}"
    if t["kind"] == "array" and isinstance(v, (list, tuple)) and isinstance(j, list):
        for a, b in zip(j, v):
            r = diagnose_typed(t["element"], a, b, depth + 1)
            if r:
                return r
    if t["kind"] == "or":
        valid = [a for a in t["items"] if mmvalid.valid(META, a, j)]
        got = type(v).__name__
        if isinstance(v, list) and v:
            got = type(v[0]).__name__ + "[]"
        return f"{type_sig(t)}|valid:{'+'.join(alt_name(a) for a in valid)}|got:{got}"
    return type_sig(t)


def run_c15(S, out):
    for name, mode, a, b in S.extras_stream():
        out.count(name + convops.dumps(b))
        if len(out.samples) < 3 and mode == "max":
            out.samples.append({"root": name, "with_extras": b})
        pt = root_pytype(name)
        try:
            va = CONV.structure(a, pt)
        except Exception:  # noqa: BLE001
            continue  # not C15's business (C01/C14 report it)
        try:
            vb = CONV.structure(b, pt)
        except Exception as e:  # noqa: BLE001
            out.add(f"root-kind {S.root_kind[name]}:{name}", "extras-make-structuring-fail", "same result as without the extra properties", type(e).__name__, name, b)
            continue
        if va != vb or repr(va) != repr(vb):
            out.add(f"root-kind {S.root_kind[name]}:{name}", "extras-change-result", repr(va)[:200], repr(vb)[:200], name, b)
            continue
        try:
            oa, ob = jnorm(CONV.unstructure(va, pt)), jnorm(CONV.unstructure(vb, pt))
        except Exception:  # noqa: BLE001
            continue
        if oa != ob:
            out.add(f"root-kind {S.root_kind[name]}:{name}", "extras-change-reserialisation", oa, ob, name, b)


def run_c11(S, out):
    for name, edit, prop, j in ([] if "--nested-only" in sys.argv else S.malformed_stream()):
        out.count(name + edit + prop + convops.dumps(j))
        if len(out.samples) < 4 and edit != "missing-required":
            out.samples.append({"structure": name, "edit": edit, "property": prop, "json": j})
        try:
            v = CONV.structure(j, getattr(types, name))
        except Exception:  # noqa: BLE001
            continue
        out.add(f"{name}.{prop}", edit, "structuring raises", repr(v)[:200], name, j)
    # the same deviations at nested protocol-object nodes of valid root values (through arrays, maps, unions, message envelopes)
    for name, edit, where, j in S.nested_malformed_stream():
        out.count(name + edit + where + convops.dumps(j))
        try:
            pt = getattr(types, name)
            v = CONV.structure(j, pt)
        except Exception:  # noqa: BLE001
            continue
        out.add(f"{name}:{where}", "nested-" + edit, "structuring raises", repr(v)[:200], name, j)


def message_props():
    return {cn: (kind, t["value"]["properties"]) for cn, kind, t in META.message_roots()}


def run_c10(S, out):
    """Every attribute of every class that mirrors a metamodel object: toggled unset / set."""
    vg = S.vg
    classes = []
    for s in META.doc["structures"]:
        if s["name"] != "LSPObject":
            classes.append((s["name"], META.flatten(s["name"]), {"kind": "reference", "name": s["name"]}, "structure"))
    for cn, (kind, props) in message_props().items():
        classes.append((cn, props, {"kind": "literal", "value": {"properties": props}}, kind))
    for cn, props, t, kind in classes:
        cls = getattr(types, cn, None)
        if cls is None or not attrs.has(cls):
            out.add(cn, "class-missing", cn, "absent", cn, None)
            continue
        wm = wire_map(cls)
        jmin, jmax = vg.value(t, "min"), vg.value(t, "max")
        try:
            omin, omax = CONV.structure(jmin, cls), CONV.structure(jmax, cls)
        except Exception:  # noqa: BLE001
            continue  # a C01/C14 matter
        for p in props:
            n = p["name"]
            f = wm.get(n)
            if f is None:
                out.add(f"{cn}.{n}", "attribute-missing", n, "absent", cn, None)
                continue
            na = valuegen.Meta.null_admitting(p["type"])
            lit = p["type"]["kind"] == "stringLiteral"
            envelope = kind in ("request", "response", "notification") and n in ("method", "jsonrpc", "result")
            always = na or lit or envelope
            for base_obj, base_json, which in ((omin, jmin, "min"), (omax, jmax, "max")):
                out.count(f"{cn}.{n}.{which}")
                # --- unset
                if f.default is not attrs.NOTHING:
                    try:
                        o = attrs.evolve(base_obj, **{f.name: f.default})
                        keys = set(CONV.unstructure(o, cls).keys())
                    except Exception as e:  # noqa: BLE001
                        keys = None
                        # serialising an object whose non-null result/attribute is unset may raise: the
                        # property speaks about written keys, nothing is written
                    if keys is not None:
                        written = n in keys
                        if f.default is None and not p.get("optional") and not na and not lit and not envelope:
                            pass  # attribute cannot legitimately be unset
                        elif written != always:
                            out.add(f"{cn}.{n}", "unset-key-" + ("written" if written else "omitted"),
                                    "always written" if always else "omitted when unset", "written" if written else "omitted", cn, base_json)
                # --- set
                if n in jmax:
                    try:
                        val = getattr(omax, f.name)
                        o = attrs.evolve(base_obj, **{f.name: val})
                        keys = set(CONV.unstructure(o, cls).keys())
                        if val is not None and n not in keys:
                            out.add(f"{cn}.{n}", "set-key-omitted", "written", "omitted", cn, jmax)
                    except Exception:  # noqa: BLE001
                        pass
            # --- parsing: an absent null-admitting or literal property is accepted
            if (na or lit) and n in jmax and not (kind != "structure" and n == "id"):
                j = dict(jmax)
                del j[n]
                try:
                    v = CONV.structure(j, cls)
                    got = getattr(v, f.name)
                    exp = p["type"]["value"] if lit else None
                    if got != exp:
                        out.add(f"{cn}.{n}", "absent-reads", exp, got, cn, j)
                except Exception as e:  # noqa: BLE001
                    out.add(f"{cn}.{n}", "absent-rejected", "accepted", type(e).__name__, cn, j)


def enum_sites():
    """(structure, property, wrap, enum) for every property / array element / map value typed by an enum."""
    for s in META.doc["structures"]:
        for p in META.flatten(s["name"]):
            t = p["type"]
            wrap = lambda v: v  # noqa: E731
            shape = "direct"
            tt = expand(t)
            if tt["kind"] == "array":
                tt, wrap, shape = expand(tt["element"]), (lambda v: [v]), "array"
            elif tt["kind"] == "map":
                tt, wrap, shape = expand(tt["value"]), (lambda v: {"k": v}), "map"
            if tt["kind"] == "or":
                for a in tt["items"]:
                    a = expand(a)
                    if a["kind"] == "reference" and a["name"] in META.enums:
                        yield (s["name"], p, wrap, shape, META.enums[a["name"]], True)
            elif tt["kind"] == "reference" and tt["name"] in META.enums:
                yield (s["name"], p, wrap, shape, META.enums[tt["name"]], False)


def run_c13(S, out):
    for e in META.doc["enumerations"]:
        cls = getattr(types, e["name"], None)
        out.count("enum " + e["name"])
        if cls is None or not (isinstance(cls, type) and issubclass(cls, enum.Enum)):
            out.add(e["name"], "enum-missing", e["name"], repr(cls), e["name"], None)
            continue
        vals = [m.value for m in cls.__members__.values()]
        exp = [v["value"] for v in e["values"]]
        if vals != exp or [type(x) for x in vals] != [type(x) for x in exp]:
            out.add(e["name"], "enum-values", exp, vals, e["name"], None)
    vg = S.vg
    for sn, p, wrap, shape, e, in_or in enum_sites():
        cls = getattr(types, sn, None)
        if cls is None:
            continue
        base = vg.value({"kind": "reference", "name": sn}, "min")
        ecls = getattr(types, e["name"])
        wm = wire_map(cls)
        f = wm.get(p["name"])
        if f is None:
            continue
        custom = META.enum_custom(e)
        tests = [(v["value"], True) for v in e["values"]]
        if e["type"]["name"] == "string":
            customs = ["x-custom-kind", "", "Zz.y"]
        else:
            used = {v["value"] for v in e["values"]}
            customs = [c for c in (max(used) + 1, 2**31 - 1, 0 if e["type"]["name"] == "uinteger" else -7) if c not in used]
        tests += [(c, custom) for c in customs]
        for val, accept in tests:
            j = dict(base)
            j[p["name"]] = wrap(val)
            out.count(f"{sn}.{p['name']}={val!r}")
            if len(out.samples) < 3 and not accept:
                out.samples.append({"structure": sn, "property": p["name"], "value": val, "expect": "rejected"})
            try:
                v = CONV.structure(j, cls)
                ok = True
            except Exception as ex:  # noqa: BLE001
                ok, v = False, type(ex).__name__
            site = f"{sn}.{p['name']}|{e['name']}"
            if accept and not ok:
                out.add(site, "declared-or-custom-value-rejected", f"{val!r} accepted", v, sn, j)
            elif not accept and ok and not in_or:
                out.add(site, "closed-enum-accepts-foreign-value", f"{val!r} rejected", repr(v)[:120], sn, j)
            elif accept and ok:
                got = getattr(v, f.name)
                got = got[0] if shape == "array" else (got["k"] if shape == "map" else got)
                if not (got == val and (isinstance(got, ecls) or custom or in_or)):
                    out.add(site, "value-altered", val, repr(got), sn, j)
                try:
                    o = jnorm(CONV.unstructure(v, cls))
                    back = o.get(p["name"])
                    if back != wrap(val):
                        out.add(site, "value-not-round-tripped", wrap(val), back, sn, j)
                except Exception as ex:  # noqa: BLE001
                    out.add(site, "unstructure-raises", wrap(val), type(ex).__name__, sn, j)


# ------------------------------------------------------------------ C02: constructor path
def build(t, j, depth=0):
    t = expand(t)
    k = t["kind"]
    if k == "or":
        for a in t["items"]:
            if mmvalid.valid(META, a, j):
                return build(a, j, depth + 1)
        raise ValueError("no valid alternative")
    if k == "reference" and t["name"] in META.enums:
        e = META.enums[t["name"]]
        cls = getattr(types, t["name"])
        for v in e["values"]:
            if v["value"] == j and type(v["value"]) is type(j):
                return cls(j)
        return j
    props, cls = props_of(t)
    if props is not None and cls is not None:
        wm = wire_map(cls)
        kw = {}
        for p in props:
            if p["name"] in j:
                kw[wm[p["name"]].name] = build(p["type"], j[p["name"]], depth + 1)
        return cls(**kw)
    if k == "array":
        return [build(t["element"], x, depth + 1) for x in j]
    if k == "tuple":
        return tuple(build(tt, x, depth + 1) for tt, x in zip(t["items"], j))
    if k == "map":
        return {kk: build(t["value"], v, depth + 1) for kk, v in j.items()}
    if k == "base" and t["name"] == "decimal":
        return float(j)
    return j


def normal_form(t, j):
    """j plus explicit nulls at unset null-admitting properties (recursively)."""
    t = expand(t)
    k = t["kind"]
    if k == "or":
        for a in t["items"]:
            if mmvalid.valid(META, a, j):
                return normal_form(a, j)
        return j
    props, cls = props_of(t)
    if props is not None and isinstance(j, dict):
        out = {}
        for p in props:
            na = valuegen.Meta.null_admitting(p["type"])
            if p["name"] in j:
                if j[p["name"]] is None and p.get("optional") and not na:
                    continue  # None is "unset": left out
                out[p["name"]] = normal_form(p["type"], j[p["name"]])
            elif na:
                out[p["name"]] = None
        return out
    if k == "array" and isinstance(j, list):
        return [normal_form(t["element"], x) for x in j]
    if k == "tuple" and isinstance(j, list):
        return [normal_form(tt, x) for tt, x in zip(t["items"], j)]
    if k == "map" and isinstance(j, dict):
        return {kk: normal_form(t["value"], v) for kk, v in j.items()}
    return j


def run_c02(S, out):
    msg = {cn: (kind, t) for cn, kind, t in META.message_roots()}
    for name, tag, j in S.valid_stream():
        kind = S.root_kind[name]
        if kind == "alias":
            continue
        t = S.root_type[name]
        cls = getattr(types, name, None)
        if cls is None or not attrs.has(cls):
            continue
        out.count(name + convops.dumps(j))
        if len(out.samples) < 3 and tag == "max":
            out.samples.append({"root": name, "json": j})
        try:
            if kind == "structure":
                obj = build(t, j)
            else:
                wm = wire_map(cls)
                kw = {}
                for p in t["value"]["properties"]:
                    if p["name"] in j and p["name"] not in ("method", "jsonrpc"):
                        kw[wm[p["name"]].name] = build(p["type"], j[p["name"]])
                obj = cls(**kw)
        except Exception as e:  # noqa: BLE001
            out.add(f"root {name}", "constructor-rejects-valid-value", "constructed", f"{type(e).__name__}: {e}"[:200], name, j)
            continue
        nf = normal_form(t, j)
        try:
            o = jnorm(CONV.unstructure(obj, cls))
        except Exception as e:  # noqa: BLE001
            out.add(f"root {name}", "unstructure-raises", nf, type(e).__name__, name, j)
            continue
        if not json_equal(o, nf):
            out.add(first_diff_site(name, o, nf), "constructed-object-serialises-differently", nf, o, name, j)
            continue
        try:
            o2 = jnorm(CONV.unstructure(CONV.structure(o, cls), cls))
            if not json_equal(o2, o):
                out.add(f"root {name}", "not-idempotent", o, o2, name, j)
        except Exception as e:  # noqa: BLE001
            # structuring the normal form failing is C01/C14's finding
            pass


def json_equal(a, b):
    if isinstance(a, dict) and isinstance(b, dict):
        return set(a) == set(b) and all(json_equal(a[k], b[k]) for k in a)
    if isinstance(a, list) and isinstance(b, list):
        return len(a) == len(b) and all(json_equal(x, y) for x, y in zip(a, b))
    return same_scalar(a, b)


def first_diff_site(name, a, b, path=""):
    if isinstance(a, dict) and isinstance(b, dict):
        for k in sorted(set(a) | set(b)):
            if k not in a or k not in b:
                return f"{name}{path}.{k}"
            if not json_equal(a[k], b[k]):
                return first_diff_site(name, a[k], b[k], f"{path}.{k}")
    if isinstance(a, list) and isinstance(b, list) and len(a) == len(b):
        for i, (x, y) in enumerate(zip(a, b)):
            if not json_equal(x, y):
                return first_diff_site(name, x, y, f"{path}[]")
    return f"{name}{path}"


def main():
    prop = args[0]
    seed = int(args[args.index("--seed") + 1]) if "--seed" in args else 0
    thorough = "--thorough" in args
    S = convops.Streams(META, seed, thorough)
    out = Out()
    if "--one" in args:
        i = args.index("--one")
        root, j = args[i + 1], json.loads(args[i + 2])
        def strip(x):
            if isinstance(x, dict):
                return {k: strip(v) for k, v in x.items() if not any(k.startswith(pfx) for pfx in ("xUnknown", "_vendorExt", "zz9", "futureProperty"))}
            if isinstance(x, list):
                return [strip(v) for v in x]
            return x
        S.valid_stream = lambda: iter([(root, "replay", j)])
        S.extras_stream = lambda: iter([(root, "replay", strip(j), j)])
        S.malformed_stream = lambda: iter([(root, "replay", "?", j)])
        S.nested_malformed_stream = lambda per_root=6: iter([])
        if root not in S.root_type:
            S.root_type[root] = {"kind": "reference", "name": root}
            S.root_kind[root] = "structure"
    if prop in ("C01", "C03", "C14"):
        run_c01_c03_c14(prop, S, out)
    elif prop == "C02":
        run_c02(S, out)
    elif prop == "C15":
        run_c15(S, out)
    elif prop == "C11":
        run_c11(S, out)
    elif prop == "C10":
        run_c10(S, out)
    elif prop == "C13":
        run_c13(S, out)
    out.dump()


if __name__ == "__main__":
    main()
