"""Direct oracle for C04 on the real package: the property stated in plain Python over
generator/lsp.json and the live `attrs.fields`, independent of the Lean model.  It is trusted only
to *exhibit* a failing (class, property, aspect); it never establishes that the property holds.

Usage: python c04_oracle.py [--pkgdir DIR] [--model FILE ...]   -> JSON list of mismatches
"""
import os
import sys
sys.path.insert(0, os.path.dirname(os.path.abspath(__file__)))
import oracle_common  # noqa: E402
from oracle_common import *  # noqa: F401,F403,E402
from oracle_common import M, STRUCTS, ENUMS, ALIASES, py_of, null_admitting, flatten, vname, expected_validator, wire_names, Unmappable  # noqa: E402
import enum, json, typing  # noqa: E401,E402
from typing import Optional  # noqa: E402
import attrs  # noqa: E402
from lsprotocol import types  # noqa: E402


def main():
    mism = []

    def add(site, aspect, expected, observed):
        mism.append({"site": site, "aspect": aspect, "expected": str(expected), "observed": str(observed)})

    for s in M["structures"]:
        cls = getattr(types, s["name"], None)
        if cls is None or not (isinstance(cls, type) and attrs.has(cls)):
            if s["name"] == "LSPObject":
                continue
            add(s["name"], "class-missing", s["name"], repr(cls))
            continue
        attrs.resolve_types(cls, types.ALL_TYPES_MAP, {})
        wn = wire_names(cls)
        by_wire = {}
        for f in attrs.fields(cls):
            by_wire.setdefault(wn[f.name][0], []).append(f)
        props = flatten(s)
        for p in props:
            site = f"{s['name']}.{p['name']}"
            fs = by_wire.get(p["name"], [])
            if len(fs) != 1:
                add(site, "missing" if not fs else "duplicate", p["name"], [f.name for f in fs])
                continue
            f = fs[0]
            if wn[f.name][1] != p["name"]:
                add(site, "wire-name-written", p["name"], wn[f.name][1])
            opt = bool(p.get("optional")) or null_admitting(p["type"])
            lit = p["type"]["kind"] == "stringLiteral"
            if oracle_common.contains_literal(p["type"]):
                es = oracle_common.shape_meta(p["type"])
                if opt:
                    es = oracle_common._U([es, "None"])
                if oracle_common.shape_py(f.type) != es:
                    add(site, "annotation", es, oracle_common.shape_py(f.type))
            else:
                try:
                    et = py_of(p["type"])
                    if opt:
                        et = Optional[et]
                    if f.type != et:
                        add(site, "annotation", et, f.type)
                except Unmappable as e:
                    add(site, "annotation", f"unmappable {e}", f.type)
            required = (not opt) and (not lit)
            if (f.default is attrs.NOTHING) != required:
                add(site, "required", required, f.default)
            ed = p["type"]["value"] if lit else (None if opt else attrs.NOTHING)
            if f.default is not ed and f.default != ed:
                add(site, "default", ed, f.default)
            ev = expected_validator(p, opt)
            if vname(f.validator) != ev:
                add(site, "validator", ev, vname(f.validator))
        names = {p["name"] for p in props}
        for w, fs in by_wire.items():
            if w not in names:
                add(f"{s['name']}.{w}", "extra", "", fs[0].name)
    for e in M["enumerations"]:
        cls = getattr(types, e["name"], None)
        if cls is None or not (isinstance(cls, type) and issubclass(cls, enum.Enum)):
            add(e["name"], "enum-missing", e["name"], repr(cls))
            continue
        base = {"string": str, "integer": int, "uinteger": int}[e["type"]["name"]]
        if not issubclass(cls, base):
            add(e["name"], "enum-base", base.__name__, cls.__mro__)
        vals = [m.value for m in cls.__members__.values()]
        if vals != [v["value"] for v in e["values"]]:
            add(e["name"], "enum-values", [v["value"] for v in e["values"]], vals)
    for a in M["typeAliases"]:
        v = getattr(types, a["name"], None)
        if v is None:
            add(a["name"], "alias-missing", a["name"], "None")
            continue
        try:
            et = py_of({"kind": "reference", "name": a["name"]})
            got = v if isinstance(v, type) else typing._eval_type(v, dict(types.ALL_TYPES_MAP), {})
            if got != et:
                add(a["name"], "alias-type", et, got)
        except Unmappable as ex:
            add(a["name"], "alias-type", f"unmappable {ex}", v)
    json.dump(mism, sys.stdout)


if __name__ == "__main__":
    main()
