"""Direct oracle for C04 on the real package: the property stated in plain Python over
generator/lsp.json and the live `attrs.fields`, independent of the Lean model.  It is trusted only
to *exhibit* a failing (class, property, aspect); it never establishes that the property holds.

Usage: python c04_oracle.py [--pkgdir DIR] [--model FILE ...]   -> JSON list of mismatches
"""
import enum
import json
import os
import sys
import typing
from typing import Any, Dict, Optional, Sequence, Tuple, Union

args = sys.argv[1:]
if "--pkgdir" in args:
    sys.path.insert(0, args[args.index("--pkgdir") + 1])
models = []
if "--model" in args:
    models = args[args.index("--model") + 1:]

import attrs  # noqa: E402
from lsprotocol import types, validators  # noqa: E402

REPO = os.environ.get("VERIF_REPO", "/repo")


def load():
    paths = models or [os.path.join(REPO, "generator", "lsp.json")]
    docs = [json.load(open(p, encoding="utf-8")) for p in paths]
    d = docs[0]
    for x in docs[1:]:
        for k in ("requests", "notifications", "structures", "enumerations", "typeAliases"):
            d[k] = d.get(k, []) + x.get(k, [])
    return d


M = load()
STRUCTS = {s["name"]: s for s in M["structures"]}
ENUMS = {e["name"]: e for e in M["enumerations"]}
ALIASES = {a["name"]: a for a in M["typeAliases"]}
BASE = {"decimal": float, "boolean": bool, "integer": int, "uinteger": int, "string": str, "DocumentUri": str, "URI": str, "null": type(None)}


class Unmappable(Exception):
    pass


def py_of(t, depth=0):
    if depth > 20:
        raise Unmappable("alias cycle")
    k = t["kind"]
    if k == "base":
        if t["name"] not in BASE:
            raise Unmappable(t["name"])
        return BASE[t["name"]]
    if k == "reference":
        n = t["name"]
        if n == "LSPAny":
            return Optional[Any]
        if n == "LSPObject":
            return types.LSPObject
        if n in ENUMS:
            e = ENUMS[n]
            cls = getattr(types, n)
            if e.get("supportsCustomValues") or n == "CompletionItemKind":
                return Union[cls, str if e["type"]["name"] == "string" else int]
            return cls
        if n in STRUCTS:
            return getattr(types, n)
        if n in ALIASES:
            return py_of(ALIASES[n]["type"], depth + 1)
        raise Unmappable(n)
    if k == "array":
        return Sequence[py_of(t["element"], depth + 1)]
    if k == "map":
        return Dict[py_of(t["key"], depth + 1), py_of(t["value"], depth + 1)]
    if k == "tuple":
        return Tuple[tuple(py_of(i, depth + 1) for i in t["items"])]
    if k == "or":
        return Union[tuple(py_of(i, depth + 1) for i in t["items"])]
    if k == "stringLiteral":
        return str
    if k == "literal" and not t["value"]["properties"]:
        return Any
    raise Unmappable(k)


def null_admitting(t):
    return t["kind"] == "or" and any(i["kind"] == "base" and i["name"] == "null" for i in t["items"])


def flatten(s):
    out, seen = [], set()

    def add(props):
        for p in props:
            if p["name"] not in seen:
                seen.add(p["name"])
                out.append(p)

    def anc(st, depth=0):
        if depth > 400:
            return
        for r in (st.get("extends") or []) + (st.get("mixins") or []):
            ps = STRUCTS.get(r.get("name"))
            if ps is not None:
                yield ps
                yield from anc(ps, depth + 1)

    add(s["properties"])
    for a in anc(s):
        add(a["properties"])
    return out


def vname(v):
    if v is None:
        return "none"
    if v is validators.integer_validator:
        return "integer"
    if v is validators.uinteger_validator:
        return "uinteger"
    cn = type(v).__name__
    if cn == "_InstanceOfValidator":
        return "instance_of(%s)" % v.type.__name__
    if cn == "_InValidator":
        return "in_(%r)" % (list(v.options),)
    if cn == "_OptionalValidator":
        return "optional(%s)" % vname(v.validator)
    return repr(v)


def expected_validator(p, opt):
    t = p["type"]
    if t["kind"] == "stringLiteral":
        return "in_(%r)" % ([t["value"]],)
    v = "none"
    if t["kind"] == "base":
        v = {"integer": "integer", "uinteger": "uinteger", "string": "instance_of(str)", "DocumentUri": "instance_of(str)",
             "URI": "instance_of(str)", "boolean": "instance_of(bool)", "decimal": "instance_of(float)"}.get(t["name"], "none")
    if v != "none" and opt:
        return f"optional({v})"
    return v


def wire_names(cls):
    """wire name of each attribute as a converter sees it (structure side, unstructure side)."""
    from lsprotocol import converters
    conv = converters.get_converter()
    so = getattr(conv.get_structure_hook(cls), "overrides", {}) or {}
    uo = getattr(conv.get_unstructure_hook(cls), "overrides", {}) or {}
    out = {}
    for f in attrs.fields(cls):
        s = so.get(f.name)
        u = uo.get(f.name)
        out[f.name] = ((s.rename if s is not None and s.rename else f.name), (u.rename if u is not None and u.rename else f.name))
    return out


def main():
    mism = []

    def add(site, aspect, expected, observed):
        mism.append({"site": site, "aspect": aspect, "expected": str(expected), "observed": str(observed)})

    for s in M["structures"]:
        cls = getattr(types, s["name"], None)
        if cls is None or not (isinstance(cls, type) and attrs.has(cls)):
            if s["name"] == "LSPObject":
                continue
            add(s["name"], "class-missing", s["name"], repr(cls))
            continue
        attrs.resolve_types(cls, types.ALL_TYPES_MAP, {})
        wn = wire_names(cls)
        by_wire = {}
        for f in attrs.fields(cls):
            by_wire.setdefault(wn[f.name][0], []).append(f)
        props = flatten(s)
        for p in props:
            site = f"{s['name']}.{p['name']}"
            fs = by_wire.get(p["name"], [])
            if len(fs) != 1:
                add(site, "missing" if not fs else "duplicate", p["name"], [f.name for f in fs])
                continue
            f = fs[0]
            if wn[f.name][1] != p["name"]:
                add(site, "wire-name-written", p["name"], wn[f.name][1])
            opt = bool(p.get("optional")) or null_admitting(p["type"])
            lit = p["type"]["kind"] == "stringLiteral"
            try:
                et = py_of(p["type"])
                if opt:
                    et = Optional[et]
                if f.type != et:
                    add(site, "annotation", et, f.type)
            except Unmappable as e:
                add(site, "annotation", f"unmappable {e}", f.type)
            required = (not opt) and (not lit)
            if (f.default is attrs.NOTHING) != required:
                add(site, "required", required, f.default)
            ed = p["type"]["value"] if lit else (None if opt else attrs.NOTHING)
            if f.default is not ed and f.default != ed:
                add(site, "default", ed, f.default)
            ev = expected_validator(p, opt)
            if vname(f.validator) != ev:
                add(site, "validator", ev, vname(f.validator))
        names = {p["name"] for p in props}
        for w, fs in by_wire.items():
            if w not in names:
                add(f"{s['name']}.{w}", "extra", "", fs[0].name)
    for e in M["enumerations"]:
        cls = getattr(types, e["name"], None)
        if cls is None or not (isinstance(cls, type) and issubclass(cls, enum.Enum)):
            add(e["name"], "enum-missing", e["name"], repr(cls))
            continue
        base = {"string": str, "integer": int, "uinteger": int}[e["type"]["name"]]
        if not issubclass(cls, base):
            add(e["name"], "enum-base", base.__name__, cls.__mro__)
        vals = [m.value for m in cls.__members__.values()]
        if vals != [v["value"] for v in e["values"]]:
            add(e["name"], "enum-values", [v["value"] for v in e["values"]], vals)
    for a in M["typeAliases"]:
        v = getattr(types, a["name"], None)
        if v is None:
            add(a["name"], "alias-missing", a["name"], "None")
            continue
        try:
            et = py_of({"kind": "reference", "name": a["name"]})
            got = v if isinstance(v, type) else typing._eval_type(v, dict(types.ALL_TYPES_MAP), {})
            if got != et:
                add(a["name"], "alias-type", et, got)
        except Unmappable as ex:
            add(a["name"], "alias-type", f"unmappable {ex}", v)
    json.dump(mism, sys.stdout)


if __name__ == "__main__":
    main()
