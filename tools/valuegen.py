"""Type-directed generator of metamodel-valid JSON, driven by lsp.json itself (not by the repo's
testdata plugin).  Pure stdlib so it can run in any interpreter.

Every random choice derives from the `random.Random` passed in, so a case replays from its seed.
"""
from __future__ import annotations

import json
import random

INT_MIN, INT_MAX = -(2**31), 2**31 - 1
STRINGS = ["", "a", "file:///x.py", "naïve ✓ 日本", "with space", "q\"uote\\", "kind", "0"]
ANY_PAYLOADS = [None, True, 0, -1, 1.5, "s", [], [1, "a", None], {}, {"a": {"b": [1, 2]}}, {"kind": "x", "range": 3}, [[], {}]]


class Meta:
    def __init__(self, doc: dict):
        self.doc = doc
        self.structs = {s["name"]: s for s in doc["structures"]}
        self.enums = {e["name"]: e for e in doc["enumerations"]}
        self.aliases = {a["name"]: a for a in doc["typeAliases"]}
        self._flat: dict[str, list] = {}

    @staticmethod
    def load(paths) -> "Meta":
        docs = [json.load(open(p, encoding="utf-8")) for p in paths]
        d = docs[0]
        for x in docs[1:]:
            for k in ("requests", "notifications", "structures", "enumerations", "typeAliases"):
                d[k] = d.get(k, []) + x.get(k, [])
        return Meta(d)

    def flatten(self, name: str) -> list:
        if name in self._flat:
            return self._flat[name]
        s = self.structs[name]
        out, seen = [], set()

        def add(props):
            for p in props:
                if p["name"] not in seen:
                    seen.add(p["name"])
                    out.append(p)

        def anc(st, depth=0):
            if depth > 400:
                return
            for r in (st.get("extends") or []) + (st.get("mixins") or []):
                ps = self.structs.get(r.get("name"))
                if ps is not None:
                    yield ps
                    yield from anc(ps, depth + 1)

        add(s["properties"])
        for a in anc(s):
            add(a["properties"])
        self._flat[name] = out
        return out

    def enum_custom(self, e) -> bool:
        return bool(e.get("supportsCustomValues")) or e["name"] == "CompletionItemKind"

    @staticmethod
    def null_admitting(t) -> bool:
        return t["kind"] == "or" and any(i["kind"] == "base" and i["name"] == "null" for i in t["items"])

    def class_name(self, msg) -> str:
        """Message class base name as the python package names it (typeName, with suffix rules)."""
        return msg.get("typeName") or ""

    @staticmethod
    def _suffixed(t, suf):
        return t if t.endswith(suf) else t + suf

    @staticmethod
    def class_base_name(msg) -> str:
        """typeName, or the documented convention: method with `$/` dropped, split at `/`, `_` and
        lower->Upper boundaries, each part title-cased (textDocument/didSave -> TextDocumentDidSave)."""
        if msg.get("typeName"):
            return msg["typeName"]
        m = msg["method"]
        if m.startswith("$/"):
            m = m[2:]
        parts, cur = [], ""
        for i, ch in enumerate(m):
            if ch in "/_":
                if cur:
                    parts.append(cur)
                cur = ""
            elif ch.isupper() and cur and (cur[-1].islower() or cur[-1].isdigit() or (i + 1 < len(m) and m[i + 1].islower() and cur[-1].isupper())):
                parts.append(cur)
                cur = ch
            else:
                cur += ch
        if cur:
            parts.append(cur)
        return "".join(p[:1].upper() + p[1:].lower() for p in parts)

    def message_roots(self):
        """(python class name, kind, synthetic literal type) for request / response / notification classes."""
        ID = {"kind": "or", "items": [{"kind": "base", "name": "integer"}, {"kind": "base", "name": "string"}]}
        IDN = {"kind": "or", "items": ID["items"] + [{"kind": "base", "name": "null"}]}
        JR = {"name": "jsonrpc", "type": {"kind": "stringLiteral", "value": "2.0"}}

        def lit(props):
            return {"kind": "literal", "value": {"properties": props}}

        for r in self.doc["requests"]:
            tn = self.class_base_name(r)
            cn = self._suffixed(tn, "Request")
            props = [{"name": "id", "type": ID}]
            if r.get("params") is not None:
                props.append({"name": "params", "type": r["params"]})
            props += [{"name": "method", "type": {"kind": "stringLiteral", "value": r["method"]}}, JR]
            yield (cn, "request", lit(props))
            yield (cn[: -len("Request")] + "Response", "response",
                   lit([{"name": "id", "type": IDN}, {"name": "result", "type": r["result"]}, JR]))
        for n in self.doc["notifications"]:
            tn = self.class_base_name(n)
            cn = self._suffixed(tn, "Notification")
            props = []
            if n.get("params") is not None:
                props.append({"name": "params", "type": n["params"]})
            props += [{"name": "method", "type": {"kind": "stringLiteral", "value": n["method"]}}, JR]
            yield (cn, "notification", lit(props))

    def roots(self, messages=True):
        """(root name, kind, type expr) for every protocol type T of C01."""
        for s in self.doc["structures"]:
            yield (s["name"], "structure", {"kind": "reference", "name": s["name"]})
        for a in self.doc["typeAliases"]:
            yield (a["name"], "alias", {"kind": "reference", "name": a["name"]})
        if messages:
            yield from self.message_roots()


def type_sig(t) -> str:
    k = t["kind"]
    if k in ("base", "reference"):
        return t["name"]
    if k == "array":
        return type_sig(t["element"]) + "[]"
    if k == "map":
        return "{" + type_sig(t["key"]) + ":" + type_sig(t["value"]) + "}"
    if k in ("or", "and", "tuple"):
        return k + "(" + ",".join(type_sig(i) for i in t["items"]) + ")"
    if k == "stringLiteral":
        return repr(t["value"])
    if k == "literal":
        return "{" + ",".join(p["name"] for p in t["value"]["properties"]) + "}"
    return k


class ValueGen:
    def __init__(self, meta: Meta, rnd: random.Random, max_depth: int = 5, extras: bool = False):
        self.m, self.rnd, self.max_depth = meta, rnd, max_depth
        self.extras = extras          # inject undeclared properties at every protocol-object node (C15)
        self.n_extras = 0
        self.or_sites: dict = {}      # path-insensitive record of (or-signature -> alternatives taken)

    # ---- primitives
    def base(self, name, mode):
        r = self.rnd
        if name in ("string",):
            return "s" if mode == "min" else r.choice(STRINGS)
        if name in ("DocumentUri", "URI"):
            return "file:///a" if mode == "min" else r.choice(["file:///a", "untitled:Untitled-1", "file:///c%3A/p/é.txt"])
        if name == "integer":
            return 0 if mode == "min" else r.choice([INT_MIN, -1, 0, 1, INT_MAX, r.randint(INT_MIN, INT_MAX)])
        if name == "uinteger":
            return 0 if mode == "min" else r.choice([0, 1, 2, INT_MAX, r.randint(0, INT_MAX)])
        if name == "decimal":
            return 0.5 if mode == "min" else r.choice([0.0, 0.5, 1.0, 0.25, 123.75])
        if name == "boolean":
            return True if mode == "min" else r.choice([True, False])
        if name == "null":
            return None
        if name == "RegExp":
            return "a.*b"
        raise ValueError(name)

    def enum_value(self, e, mode):
        vals = [v["value"] for v in e["values"]]
        if mode == "min":
            return vals[0]
        if self.m.enum_custom(e) and self.rnd.random() < 0.3:
            if e["type"]["name"] == "string":
                return self.rnd.choice(["custom.kind", "x-" + str(self.rnd.randint(0, 99)), ""])
            lo = 0 if e["type"]["name"] == "uinteger" else INT_MIN
            return self.rnd.choice([1000, INT_MAX, lo, self.rnd.randint(lo, INT_MAX)])
        return self.rnd.choice(vals)

    def any_payload(self, mode):
        return {"x": 1} if mode == "min" else self.rnd.choice(ANY_PAYLOADS)

    # ---- types
    def value(self, t, mode="min", depth=0, path=(), choose=None):
        """A valid value of type t.  mode: min | max | rand.  `choose(path, n)` may force the
        alternative taken at an `or` (path = tuple of steps)."""
        k = t["kind"]
        if k == "base":
            return self.base(t["name"], mode)
        if k == "stringLiteral":
            return t["value"]
        if k == "integerLiteral":
            return t["value"]
        if k == "booleanLiteral":
            return t["value"]
        if k == "reference":
            n = t["name"]
            if n == "LSPAny":
                return self.any_payload(mode)
            if n == "LSPObject":
                return {"k": self.any_payload(mode)} if mode != "min" else {}
            if n == "LSPArray":
                return [self.any_payload(mode)] if mode != "min" else []
            if n in self.m.enums:
                return self.enum_value(self.m.enums[n], mode)
            if n in self.m.structs:
                return self.struct(n, mode, depth, path, choose)
            if n in self.m.aliases:
                return self.value(self.m.aliases[n]["type"], mode, depth, path + ("@" + n,), choose)
            raise ValueError("unresolved reference " + n)
        if k == "array":
            if mode == "min" or depth >= self.max_depth:
                return []
            n = 1 if mode == "max" else self.rnd.choice([0, 1, 2, 3])
            return [self.value(t["element"], mode, depth + 1, path + ("[]",), choose) for _ in range(n)]
        if k == "map":
            if mode == "min" or depth >= self.max_depth:
                return {}
            keys = ["file:///a"] if mode == "max" else self.rnd.sample(["file:///a", "file:///b", "k", ""], self.rnd.choice([0, 1, 2]))
            if t["key"]["kind"] == "base" and t["key"]["name"] in ("integer", "uinteger"):
                keys = [str(i) for i in range(len(keys))]
            return {kk: self.value(t["value"], mode, depth + 1, path + ("{}",), choose) for kk in keys}
        if k == "tuple":
            return [self.value(i, mode, depth + 1, path + (f"({j})",), choose) for j, i in enumerate(t["items"])]
        if k == "or":
            items = t["items"]
            idx = None
            if choose is not None:
                idx = choose(path, len(items))
            if idx is None:
                if mode == "min" or depth >= self.max_depth:
                    idx = self.cheapest(items)
                elif mode == "max":
                    idx = 0
                else:
                    idx = self.rnd.randrange(len(items))
            sig = "|".join(type_sig(i) for i in items)
            self.or_sites.setdefault(sig, set()).add(idx)
            return self.value(items[idx], mode, depth, path + (f"|{idx}",), choose)
        if k == "and":
            out = {}
            for i in t["items"]:
                out.update(self.value(i, mode, depth, path, choose))
            return out
        if k == "literal":
            return self.props(t["value"]["properties"], mode, depth, path, choose)
        raise ValueError(k)

    def cheapest(self, items):
        def cost(t):
            k = t["kind"]
            if k == "base":
                return 0 if t["name"] == "null" else 1
            if k in ("stringLiteral", "integerLiteral", "booleanLiteral"):
                return 1
            if k == "reference" and t["name"] in self.m.enums:
                return 1
            if k in ("array", "map"):
                return 2
            if k == "reference" and t["name"] in self.m.structs:
                return 3 + sum(1 for p in self.m.flatten(t["name"]) if not p.get("optional"))
            return 5
        return min(range(len(items)), key=lambda i: cost(items[i]))

    def struct(self, name, mode, depth, path, choose):
        return self.props(self.m.flatten(name), mode, depth, path + (name,), choose)

    def props(self, props, mode, depth, path, choose):
        out = {}
        for p in props:
            opt = bool(p.get("optional"))
            if opt:
                if mode == "min" or depth >= self.max_depth:
                    continue
                if mode == "rand" and self.rnd.random() < 0.5:
                    continue
            out[p["name"]] = self.value(p["type"], mode, depth + 1, path + ("." + p["name"],), choose)
        if self.extras:
            names = {p["name"] for p in props}
            for _ in range(self.rnd.choice([1, 1, 2])):
                k = self.rnd.choice(["xUnknown", "_vendorExt", "zz9", "futureProperty"]) + str(self.rnd.randint(0, 9))
                if k not in names:
                    out[k] = self.rnd.choice(ANY_PAYLOADS)
                    self.n_extras += 1
        return out
