#!/bin/bash
# tools/harmless_run.sh hr3 "C12 C11"  : apply a behaviour-preserving refactoring (harmless/<id>/patch.diff) to /repo, run the checks, undo.
# A check that exits non-zero here is a false alarm (or the refactoring is not harmless): look at it.
cd /verif
id=$1; shift
git -C /repo status --porcelain --untracked-files=no | grep -q . && { echo "refusing: /repo dirty"; exit 2; }
git -C /repo apply /verif/harmless/$id/patch.diff || exit 2
out=""
for c in $1; do
  r=$(./check $c 2>&1 | grep -E "^\[$c\]|VIOLATION" | tail -3); rc=$?
  echo "$r"
  out="$out$c: $(echo "$r" | tail -1)\n"
done
git -C /repo checkout -- .
git checkout evidence/ 2>/dev/null
printf "$out" > /verif/harmless/$id/result.txt
